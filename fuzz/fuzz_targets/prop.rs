//! One coverage-guided target for all properties: VCHECK_FUZZ_PROP selects the property; byte 0 of the
//! input selects one of its jobs, the rest is decoded into that job's input (a Plan, respecting the
//! job's step-kind weights) and the SAME case function (oracle + known-finding exemptions) decides.
#![no_main]
use libfuzzer_sys::fuzz_target;
use std::sync::OnceLock;
use vcheck::engine::{JobT, Property};

static PROP: OnceLock<Property> = OnceLock::new();
static JOBS: OnceLock<Vec<&'static Box<dyn JobT>>> = OnceLock::new();

fuzz_target!(|data: &[u8]| {
    let p = PROP.get_or_init(|| {
        // library panics inside a case are caught and judged by the engine; keep them from aborting
        std::panic::set_hook(Box::new(|_| {}));
        let id = std::env::var("VCHECK_FUZZ_PROP").unwrap_or_else(|_| "C04".to_string());
        vcheck::props::build(&id).expect("unknown property")
    });
    let js = JOBS.get_or_init(|| vcheck::engine::fuzz_jobs(PROP.get().unwrap()));
    if let Err(m) = vcheck::engine::fuzz_one_of(p, js, data) {
        eprintln!("FUZZ-FAILURE {m}");
        std::process::abort();
    }
});
