#!/usr/bin/env python3
"""Generates the harness's own sensitivity mutants as patches under /verif/mutants/ (never committed to /repo)."""
import subprocess, os, sys
M = [
 ("M01_orswot_seen_gate_gt", "src/orswot.rs", "if self.clock.get(&dot.actor) >= dot.counter {\n                    // we've already seen this op", "if self.clock.get(&dot.actor) > dot.counter {\n                    // we've already seen this op", "C09 C01 C04"),
 ("M02_orswot_no_apply_deferred_after_add", "src/orswot.rs", "                self.clock.apply(dot);\n                self.apply_deferred();", "                self.clock.apply(dot);", "C08 C04"),
 ("M03_orswot_rm_not_deferred_when_concurrent", "src/orswot.rs", "            None | Some(Ordering::Greater) => {\n                if let Some(existing_deferred)", "            Some(Ordering::Greater) => {\n                if let Some(existing_deferred)", "C08 C04"),
 ("M04_orswot_merge_skip_ours_unseen", "src/orswot.rs", "                common.merge(our_clock.clone_without(&other.clock));\n", "", "C02 C03 C04"),
 ("M05_orswot_merge_drops_other_deferred", "src/orswot.rs", "        for (rm_clock, members) in other.deferred {\n            self.apply_rm(members, rm_clock);\n        }\n", "", "C08 C02"),
 ("M06_orswot_contains_whole_clock", "src/orswot.rs", "            rm_clock: member_clock_opt.cloned().unwrap_or_default(),", "            rm_clock: if exists { self.clock.clone() } else { Default::default() },", "C07 C04"),
 ("M07_orswot_reset_keeps_empty_members", "src/orswot.rs", "                val_clock.reset_remove(clock);\n                if val_clock.is_empty() {\n                    None", "                val_clock.reset_remove(clock);\n                if false {\n                    None", "C18"),
 ("M08_vclock_reset_remove_gt", "src/vclock.rs", "            if counter >= self.get(actor) {\n                self.dots.remove(actor);", "            if counter > self.get(actor) {\n                self.dots.remove(actor);", "C10 C04 C18"),
 ("M09_vclock_glb_keeps_zero", "src/vclock.rs", "                    0 => None,\n", "                    0 if false => None,\n", "C10"),
 ("M10_vclock_intersection_ge", "src/vclock.rs", "            if right_counter == *left_counter {", "            if right_counter >= *left_counter {", "C10 C02"),
 ("M11_vclock_validate_ge", "src/vclock.rs", "        if dot.counter > next_counter {", "        if dot.counter >= next_counter {", "C16 C10"),
 ("M12_vclock_cmp_less_strict", "src/vclock.rs", "        } else if self.dots.iter().all(|(w, c)| other.get(w) >= *c) {", "        } else if self.dots.iter().all(|(w, c)| other.get(w) > *c) {", "C10"),
 ("M13_mvreg_apply_never_evicts_less", "src/mvreg.rs", "                        None | Some(Ordering::Greater)\n", "                        None | Some(Ordering::Greater) | Some(Ordering::Less)\n", "C06"),
 ("M14_mvreg_apply_keeps_dominated_put", "src/mvreg.rs", "                        should_add = false;", "                        should_add = true;", "C06 C09"),
 ("M15_mvreg_merge_no_dedupe", "src/mvreg.rs", "                .filter(|(clock, _)| self.vals.iter().all(|(c, _)| clock != c))\n", "", "C02 C06 C09"),
 ("M16_map_no_apply_deferred_after_up", "src/map.rs", "                self.clock.apply(dot);\n                self.apply_deferred();", "                self.clock.apply(dot);", "C08"),
 ("M17_map_key_rm_no_nested_reset", "src/map.rs", "                    entry.val.reset_remove(&clock);\n", "", "C05"),
 ("M18_map_merge_no_reset_of_deleted", "src/map.rs", "                    entry.val.reset_remove(&information_we_deleted);\n", "", "C03 C02 C05"),
 ("M19_map_get_whole_clock", "src/map.rs", "            rm_clock: entry_opt\n                .map(|map_entry| map_entry.clock.clone())\n                .unwrap_or_default(),", "            rm_clock: entry_opt\n                .map(|_| self.clock.clone())\n                .unwrap_or_default(),", "C07 C05"),
 ("M20_ctx_derive_add_no_apply", "src/ctx.rs", "        clock.apply(dot.clone());\n", "", "C07 C06"),
 ("M21_list_no_clamp", "src/list.rs", "        ix = ix.min(self.seq.len());\n", "", "C13"),
 ("M22_list_skip_off_by_one", "src/list.rs", "let mut indices = self.seq.keys().skip(indices_to_drop);", "let mut indices = self.seq.keys().skip(indices_to_drop.saturating_sub(1));", "C13"),
 ("M23_list_gate_lt", "src/list.rs", "        if op_dot.counter <= self.clock.get(&op_dot.actor) {", "        if op_dot.counter < self.clock.get(&op_dot.actor) {", "C09 C12"),
 ("M24_ident_marker_le", "src/identifier.rs", "if l_m < &marker && &marker < h_m {", "if l_m <= &marker && &marker < h_m {", "C14 C12"),
 ("M25_ident_prefix_rule_flipped", "src/identifier.rs", "                (None, Some(_)) => return Ordering::Greater,\n                (Some(_), None) => return Ordering::Less,", "                (None, Some(_)) => return Ordering::Less,\n                (Some(_), None) => return Ordering::Greater,", "C14"),
 ("M26_ident_between_third", "src/identifier.rs", "(low + high) / BigRational::from_integer(2.into())", "(low + high) / BigRational::from_integer(3.into())", "C14 C13"),
 ("M27_glist_insert_before_included", "src/glist.rs", "                .range((Unbounded, Excluded(high_id.clone())))\n                .rev()\n                .find(|id| id < &high_id)", "                .range((Unbounded, Included(high_id.clone())))\n                .rev()\n                .find(|id| id <= &high_id)", "C13"),
 ("M28_merkle_children_stay_roots", "src/merkle_reg.rs", "            for child in node.children.iter() {\n                self.roots.remove(child);\n            }\n", "", "C15"),
 ("M29_merkle_orphans_not_reexamined", "src/merkle_reg.rs", "            for node in nodes_to_apply {\n                self.apply(node);\n            }", "            for node in nodes_to_apply {\n                self.orphans.insert(node.hash(), node);\n            }", "C15"),
 ("M30_merkle_merge_ignores_orphans", "src/merkle_reg.rs", "        for (_, node) in orphans {\n            self.apply(node);\n        }\n", "        let _ = orphans;\n", "C15 C03"),
 ("M31_merkle_no_dup_check", "src/merkle_reg.rs", "        if self.dag.contains_key(&node_hash) || self.orphans.contains_key(&node_hash) {\n            return;\n        }\n", "", "C15 C09"),
 ("M32_lww_update_le", "src/lwwreg.rs", "        if self.marker < marker {", "        if self.marker <= marker {", "C11"),
 ("M33_gcounter_inc_many_no_base", "src/gcounter.rs", "        let steps = steps + self.inner.get(&actor);", "        let steps = steps.max(self.inner.get(&actor));", "C11"),
 ("M34_pncounter_dec_many_uses_p", "src/pncounter.rs", "            dot: self.n.inc_many(actor, steps),", "            dot: self.p.inc_many(actor, steps),", "C11"),
 ("M35_serde_helper_drops_last", "src/serde_helper.rs", "        let vec = Vec::from_iter(v.iter());", "        let mut vec = Vec::from_iter(v.iter());\n        if vec.len() > 3 {\n            vec.pop();\n        }", "C19"),
 ("M36_dot_cmp_ignores_actor", "src/dot.rs", "        if self.actor == other.actor {\n            self.counter.partial_cmp(&other.counter)", "        if self.actor == other.actor || self.counter == 0 {\n            self.counter.partial_cmp(&other.counter)", "C10"),
 ("M37_map_reset_no_nested", "src/map.rs", "                entry.clock.reset_remove(clock);\n                entry.val.reset_remove(clock);", "                entry.clock.reset_remove(clock);", "C18"),
 ("M38_map_validate_merge_one_dir", "src/map.rs", "                    if other_key != key && other_entry.clock.get(actor) == counter {", "                    if other_key > key && other_entry.clock.get(actor) == counter {", "C17"),
 ("M39_orswot_validate_rm", "src/orswot.rs", "            Op::Rm { .. } => Ok(()),\n        }\n    }\n\n    fn apply", "            Op::Rm { clock, .. } => clock.iter().try_for_each(|d| self.clock.validate_op(&crate::Dot::new(d.actor.clone(), d.counter))),\n        }\n    }\n\n    fn apply", "C16"),
 ("M40_mvreg_reset_keeps_empty", "src/mvreg.rs", "                val_clock.reset_remove(clock);\n                if val_clock.is_empty() {", "                val_clock.reset_remove(clock);\n                if val_clock.is_empty() && false {", "C18 C20"),
 ("M41_orswot_rm_no_prune_empty_member", "src/orswot.rs", "                member_clock.reset_remove(&clock);\n                if member_clock.is_empty() {\n                    self.entries.remove(member);\n                }", "                member_clock.reset_remove(&clock);", "C04 C20"),
 ("M42_map_merge_forgets_clock", "src/map.rs", "        self.clock.merge(other.clock);\n\n        self.apply_deferred();\n    }\n}\n\nimpl<K: Ord, V: Val<A>, A: Ord + Hash + Clone> Map<K, V, A> {", "        let _ = other.clock;\n\n        self.apply_deferred();\n    }\n}\n\nimpl<K: Ord, V: Val<A>, A: Ord + Hash + Clone> Map<K, V, A> {", "C03 C07"),
]
os.makedirs('/verif/mutants', exist_ok=True)
assert subprocess.run(['git', '-C', '/repo', 'status', '--porcelain', '--untracked-files=no'], capture_output=True, text=True).stdout.strip() == '', '/repo not clean'
idx = []
for name, f, old, new, props in M:
    p = os.path.join('/repo', f)
    s = open(p).read()
    if s.count(old) != 1:
        print("SKIP (pattern count %d): %s" % (s.count(old), name)); continue
    open(p, 'w').write(s.replace(old, new))
    d = subprocess.run(['git', '-C', '/repo', 'diff'], capture_output=True, text=True).stdout
    subprocess.run(['git', '-C', '/repo', 'checkout', '--', '.'])
    open(f'/verif/mutants/{name}.diff', 'w').write(d)
    idx.append((name, props))
open('/verif/mutants/INDEX.txt', 'w').write(''.join(f"{n}\t{p}\n" for n, p in idx))
print(len(idx), "mutants written")
