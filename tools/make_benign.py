#!/usr/bin/env python3
"""Semantics-preserving (or property-improving) changes to /repo: every check must stay SILENT on them.
Patches are written to /verif/benign/ (never committed to /repo)."""
import subprocess, os
B = [
 ("B01_vclock_partial_cmp_single_pass", "src/vclock.rs",
  """        if self == other {
            Some(Ordering::Equal)
        } else if other.dots.iter().all(|(w, c)| self.get(w) >= *c) {
            Some(Ordering::Greater)
        } else if self.dots.iter().all(|(w, c)| other.get(w) >= *c) {
            Some(Ordering::Less)
        } else {
            None
        }""",
  """        let ge = other.dots.iter().all(|(w, c)| self.get(w) >= *c);
        let le = self.dots.iter().all(|(w, c)| other.get(w) >= *c);
        match (ge, le) {
            (true, true) => Some(Ordering::Equal),
            (true, false) => Some(Ordering::Greater),
            (false, true) => Some(Ordering::Less),
            (false, false) => None,
        }"""),
 ("B02_mvreg_new_value_in_front", "src/mvreg.rs", "                    self.vals.push((clock, val));", "                    self.vals.insert(0, (clock, val));"),
 ("B03_map_validate_op_without_entry_clock_check", "src/map.rs",
  """                entry
                    .clock
                    .validate_op(dot)
                    .map_err(CmRDTValidation::SourceOrder)?;
""", ""),
 ("B04_gcounter_read_fold", "src/gcounter.rs", "        self.inner.iter().map(|dot| dot.counter).sum()", "        self.inner.iter().fold(BigUint::from(0u8), |acc, dot| acc + BigUint::from(dot.counter))"),
 ("B05_merkle_validate_reports_last_missing_child", "src/merkle_reg.rs", "        for child in op.children.iter() {\n            if !self.dag.contains_key(child) {", "        for child in op.children.iter().rev() {\n            if !self.dag.contains_key(child) {"),
 ("B06_lww_update_gt", "src/lwwreg.rs", "        if self.marker < marker {", "        if marker > self.marker {"),
 ("B07_dot_debug_format", "src/dot.rs", "        write!(f, \"{:?}.{:?}\", self.actor, self.counter)", "        write!(f, \"{:?}@{:?}\", self.actor, self.counter)"),
 ("B08_orswot_apply_rm_entry_api", "src/orswot.rs",
  """            if let Some(member_clock) = self.entries.get_mut(member) {
                member_clock.reset_remove(&clock);
                if member_clock.is_empty() {
                    self.entries.remove(member);
                }
            }""",
  """            let emptied = match self.entries.get_mut(member) {
                Some(member_clock) => {
                    member_clock.reset_remove(&clock);
                    member_clock.is_empty()
                }
                None => false,
            };
            if emptied {
                self.entries.remove(member);
            }"""),
 ("B09_list_position_via_values", "src/list.rs", "        self.iter().nth(ix)", "        self.seq.values().nth(ix)"),
 ("B10_vclock_merge_by_max", "src/vclock.rs", "        for dot in other.into_iter() {\n            self.apply(dot);\n        }", "        for (actor, counter) in other.dots {\n            if counter > self.get(&actor) {\n                self.dots.insert(actor, counter);\n            }\n        }"),
]
os.makedirs('/verif/benign', exist_ok=True)
assert subprocess.run(['git', '-C', '/repo', 'status', '--porcelain', '--untracked-files=no'], capture_output=True, text=True).stdout.strip() == '', '/repo not clean'
n = 0
for name, f, old, new in B:
    p = os.path.join('/repo', f); s = open(p).read()
    if s.count(old) != 1:
        print("SKIP (pattern count %d): %s" % (s.count(old), name)); continue
    open(p, 'w').write(s.replace(old, new))
    d = subprocess.run(['git', '-C', '/repo', 'diff'], capture_output=True, text=True).stdout
    subprocess.run(['git', '-C', '/repo', 'checkout', '--', '.'])
    open(f'/verif/benign/{name}.diff', 'w').write(d); n += 1
print(n, "benign patches written")
