#!/bin/bash
# usage: tools/run_seeded.sh [id-substring]  -- for each /verif/seeded/<id>/patch.diff: git -C /repo apply, run ALL quick checks,
# git -C /repo checkout -- . ; records which checks catch it in /verif/seeded/<id>/meta.json (via tools/seed_meta.py)
cd /repo || exit 2
[ -n "$(git status --porcelain --untracked-files=no)" ] && { echo "/repo not clean"; exit 2; }
trap 'git -C /repo checkout -- .' EXIT
for d in /verif/seeded/*${1:-}*/; do
  id=$(basename "$d")
  git -C /repo apply "$d/patch.diff" || { echo "$id PATCH-FAILED"; continue; }
  caught=""; infra=""
  for c in C01 C02 C03 C04 C05 C06 C07 C08 C09 C10 C11 C12 C13 C14 C15 C16 C17 C18 C19 C20; do
    (cd /verif && VERIF_SEED=${VERIF_SEED:-0} ./check $c quick >/tmp/seed_out.txt 2>&1); rc=$?
    if [ $rc -eq 1 ]; then caught="$caught $c"; elif [ $rc -ne 0 ]; then infra="$infra $c"; fi
  done
  git -C /repo checkout -- .
  echo "$id CAUGHT:$caught | INFRA:$infra"
  python3 /verif/tools/seed_meta.py "$id" "$caught" "$infra"
done
rm -f /verif/replays/C*-*.json
(cd /verif && git checkout -- evidence 2>/dev/null)
