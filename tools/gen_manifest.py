#!/usr/bin/env python3
"""Regenerates /verif/MANIFEST.json from the table below (keeps it valid at all times)."""
import json, os, sys
VERIF = os.path.dirname(os.path.dirname(os.path.abspath(__file__)))
props = [json.loads(l) for l in open(os.path.join(VERIF, 'properties.jsonl'))]
ids = [p['id'] for p in props]

# id -> (technique, level text, level note, design ref)
CHECKS = {}
def add(i, technique, text, note, ref):
    CHECKS[i] = (technique, text, note, ref)

exec(open(os.path.join(VERIF, 'tools', 'manifest_table.py')).read())

checks = []
for i in ids:
    if i not in CHECKS:
        continue
    technique, text, note, ref = CHECKS[i]
    checks.append({
        "property_id": i,
        "quick_cmd": f"./check {i} quick",
        "thorough_cmd": f"./check {i} thorough",
        "evidence_file": f"/verif/evidence/{i}.json",
        "replay_cmd_template": f"./check {i} --replay {{path}}",
        "engine": "vcheck",
        "level_claimed": {"category": "exploration", "text": text, "design_ref": ref},
        "level_note": note,
        "technique": technique,
    })
na = [{"property_id": i, "reason": NOT_APPLICABLE.get(i, "check not built yet in this session; planned in DESIGN.md section 3")} for i in ids if i not in CHECKS]
m = {
    "version": 1,
    "setup_cmd": "./setup.sh",
    "hooks": {
        "guard": "rust_crdt_verif",
        "enable": "none needed: no source commit in /repo uses the guard; every observation goes through the public API and serde",
        "baseline_off_cmd": "cd /repo/$(cat /w/out/cargo_root.txt) && cargo nextest run --workspace --no-fail-fast --tool-config-file pb:/w/lib/nextest.toml --profile pb --test-threads 8 --offline   # the pinned command of /root/.vp/BASELINE.json; no guard exists, so 'guard OFF' is the plain tree (plain-cargo equivalent: cargo test --offline --workspace --no-fail-fast -- --skip prop_op_reordering_converges, the skipped test being the baseline's always-failing one)",
        "source_commits": [],
        "add_only": True,
    },
    "engines": [
        {"name": "vcheck", "path": "/verif/harness", "serves_properties": [c["property_id"] for c in checks],
         "kind_free_text": "Rust harness (path dependency on /repo): proptest TestRunner over a replicated-history language (Plans), 16 shards, integrated shrinking, knowledge-set reference models, bounded-exhaustive small scopes; thorough tier adds cargo-fuzz/libFuzzer targets over the same interpreter"},
    ],
    "checks": checks,
    "notes": NOTES,
    "not_applicable": na,
}
json.dump(m, open(os.path.join(VERIF, 'MANIFEST.json'), 'w'), indent=1)
print("MANIFEST.json written:", len(checks), "checks,", len(na), "not_applicable")
