#!/bin/bash
# usage: tools/run_mutants.sh [mutant-name-substring]   -- applies each /verif/mutants/*.diff to /repo in turn, runs all quick checks, reverts
OUT=/verif/mutants/RESULTS.txt
cd /repo || exit 2
[ -n "$(git status --porcelain --untracked-files=no)" ] && { echo "/repo not clean"; exit 2; }
trap 'git -C /repo checkout -- .' EXIT
for d in /verif/mutants/*${1:-}*.diff; do
  name=$(basename "$d" .diff)
  git -C /repo apply "$d" || { echo "$name PATCH-FAILED" >> $OUT; continue; }
  caught=""; missed=""; infra=""
  for id in C01 C02 C03 C04 C05 C06 C07 C08 C09 C10 C11 C12 C13 C14 C15 C16 C17 C18 C19 C20; do
    (cd /verif && VERIF_SEED=${VERIF_SEED:-0} ./check $id quick >/tmp/mut_out.txt 2>&1); rc=$?
    if [ $rc -eq 1 ]; then caught="$caught $id"; elif [ $rc -eq 0 ]; then missed="$missed $id"; else infra="$infra $id"; fi
  done
  git -C /repo checkout -- .
  echo "$name CAUGHT:$caught | INFRA:$infra" >> $OUT
  echo "$name CAUGHT:$caught | INFRA:$infra"
done
rm -f /verif/replays/C*-*.json
(cd /verif && git checkout -- evidence 2>/dev/null)
