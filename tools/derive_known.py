#!/usr/bin/env python3
"""(Re)derive one minimal replay per (property, known-finding class): runs the search with only that
class's exemption disabled (--strict-class), keeps the smallest shrunk input, and writes
/verif/replays/known/<P>-<class>.json plus /verif/known_findings.json.  Run by hand when the machinery
changes; the checks themselves never write these files."""
import json, os, subprocess, glob, shutil, sys
VERIF = os.path.dirname(os.path.dirname(os.path.abspath(__file__)))
BIN = os.environ.get('VCHECK_BIN', os.path.join(VERIF, 'harness/target/release/vcheck'))
WHAT = {
 "MAP-T1": "Map: one actor updates a key before and after a peer's key remove that saw only the first update; states that went through a merge resurrect / keep the removed data (entry clocks keep one counter per actor)",
 "MAP-T2": "Map<_,MVReg>: a value written after its author saw another key's (or an already removed) update survives a key remove that covered its dot (MVReg::reset_remove drops a value only if its whole context is covered); reads depend on delivery order",
 "MAP-T2b": "Map<_,MVReg>: a key remove strips its context dots from surviving values that had observed the removed write; hidden contexts (==) differ and, under non-causal delivery, a dominated write reappears",
 "MAP-T3": "Map (per-actor delivery): a nested remove parked inside a nested value is dropped together with its entry by a key remove; the add it covered resurrects when it arrives",
 "MAP-T4": "Map<_,Orswot|Map>: a nested remove applied after a concurrent key remove is parked forever in the nested value's pending table: equal knowledge, unequal states, residue",
 "MAP-T5": "Map<_,MVReg>: merging a state whose clock contains dots outside an entry strips them from stored value contexts; == breaks and later merges show superseded / duplicated values",
 "MAP-T6": "Map<_,MVReg> (per-actor delivery): a write made at a replica whose knowledge is not causally closed carries a map-clock context that does not dominate the value it read",
 "MAP-V1": "Map::validate_op rejects an in-order update (SourceOrder / Value) when the actor's previous dot is not the current witness of that key, nested key or nested set",
 "ORSWOT-V2": "Orswot::validate_merge reports DoubleSpentDot for correct use after a single add_all of two members (also nested in a Map)",
 "SERDE-D1": "an Orswot/Map state holding a pending (deferred) remove cannot be serialised with serde_json: 'key must be a string'",
}
PLAN = {
 "C01": ["MAP-T2"],
 "C02": ["MAP-T1", "MAP-T2", "MAP-T2b", "MAP-T3", "MAP-T5", "MAP-T6"],
 "C03": ["MAP-T1", "MAP-T2", "MAP-T5"],
 "C05": ["MAP-T1", "MAP-T2", "MAP-T5"],
 "C07": ["MAP-T1", "MAP-T2", "MAP-T5"],
 "C08": ["MAP-T1", "MAP-T2", "MAP-T2b", "MAP-T3", "MAP-T5", "MAP-T6"],
 "C09": ["MAP-T1", "MAP-T2", "MAP-T2b", "MAP-T4", "MAP-T5"],
 "C16": ["MAP-V1"],
 "C17": ["ORSWOT-V2"],
 "C19": ["SERDE-D1"],
 "C20": ["MAP-T1", "MAP-T2", "MAP-T2b", "MAP-T4", "MAP-T5"],
}
only = sys.argv[1:]
out_dir = os.path.join(VERIF, 'replays/known')
os.makedirs(out_dir, exist_ok=True)
kf_path = os.path.join(VERIF, 'known_findings.json')
entries = json.load(open(kf_path)) if os.path.exists(kf_path) else []
def size(d): return (len(d['input'].get('steps', [])), len(json.dumps(d['input'])))
for P, classes in PLAN.items():
    if only and P not in only: continue
    for X in classes:
        best = None
        for tier, seeds in (("quick", [0, 1, 2, 3, 4, 5]), ("thorough", [0])):
            for seed in seeds:
                tmp = f"/tmp/derive_known/{P}-{X}-{tier}-{seed}"
                shutil.rmtree(tmp, ignore_errors=True); os.makedirs(tmp)
                subprocess.run([BIN, P, "--tier", tier, "--seed", str(seed), "--strict-class", X, "--verif", tmp], stdout=subprocess.PIPE, stderr=subprocess.PIPE)
                for f in glob.glob(tmp + "/replays/*.json"):
                    d = json.load(open(f))
                    if best is None or size(d) < size(best): best = d
                shutil.rmtree(tmp, ignore_errors=True)
            if best is not None and tier == "quick": break
        if best is None:
            print(f"{P} {X}: NOT FOUND (class may be unreachable in this property)")
            entries = [e for e in entries if not (e['property'] == P and e['class'] == X)]
            continue
        best['strict'] = True
        best['class'] = X
        rel = f"replays/known/{P}-{X}.json"
        json.dump(best, open(os.path.join(VERIF, rel), 'w'), indent=1)
        entries = [e for e in entries if not (e['property'] == P and e['class'] == X)]
        entries.append({"property": P, "class": X, "status": "open", "what": WHAT[X], "replay": rel, "job": best['job'],
                        "signature": "history in the replay file; exemption trigger = predicate of class %s in harness/src/props/exempt.rs (c16/c17/c19 for V1/V2/D1), evaluated on the model's view" % X})
        print(f"{P} {X}: {best['job']} steps={len(best['input'].get('steps', []))}")
entries.sort(key=lambda e: (e['property'], e['class']))
json.dump(entries, open(kf_path, 'w'), indent=1)
