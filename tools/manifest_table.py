NOTES = "All checks are generated-input search against an explicit oracle (property-based testing; thorough tier adds coverage-guided fuzzing). exit 0 = held, 1 = VIOLATION line, 2 = infrastructure (build failure, degenerate generator, watchdog)."
NOT_APPLICABLE = {}
EXPL = "Generated-history search against a reference model: evidence that the property holds on every explored history, never a proof of absence."
add("C04", "property-based testing: proptest-generated replicated histories vs dot-store reference model (stateful/model-based)",
    EXPL + " Every read of the affected replica is compared with the observed-remove/add-wins specification after every step, under causal and per-actor (FIFO) delivery with duplicates, merges and stale merges.",
    "Trusts the harness's knowledge-set bookkeeping and the dot-store model (sets of op ids + integer comparisons); u8 members/actors; each actor confined to one replica.", "DESIGN.md 3/C04")
add("C06", "property-based testing: proptest-generated write histories under arbitrary delivery vs knowledge-set model of causally-maximal writes",
    EXPL + " read().val (multiset) and add_clock compared with the model after every step, any delivery order, duplicates, merges.",
    "Trusts the causal-past computation of the model; u16 values/u8 actors.", "DESIGN.md 3/C06")
