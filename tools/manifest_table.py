NOTES = ("One genuine defect found by the thorough tier (two pending removes overwriting each other in reset_remove, property C08) was repaired in /repo by the unguarded commit 92476d5 'fix: unite pending removes whose clocks collapse in reset_remove'; it is recorded as fixed in known_findings.json and its replays run as plain regression inputs. No hook commit exists: the harness needs no instrumentation. "
         "All 20 checks are generated-input search against an explicit oracle (property-based testing with proptest over a replicated-history language, "
         "bounded-exhaustive small scopes for C10/C14/C15; thorough tier = 30-50x cases; coverage-guided libFuzzer targets over the same interpreter live in /verif/fuzz). "
         "exit 0 = held on everything explored (KNOWN-FINDING lines possible), 1 = VIOLATION line, 2 = infrastructure (build failure, degenerate generator, watchdog). "
         "Known findings are listed in known_findings.json with one minimal replay per (property, class); each check re-executes its replays in strict mode and prints KNOWN-FINDING while they still fail.")
NOT_APPLICABLE = {}
E = "Exploration: generated-history search against an explicit oracle; evidence that the property holds on every explored case, never a proof of absence. "
T_HIST = "property-based testing (proptest): generated replicated histories (Plans) interpreted against the real library, "
add("C01", T_HIST + "differential oracle: equal knowledge sets => equal reads, plus ops-only twins in other causal orders",
    E + "All 13 op-replicated types in 16 instantiations (incl. Map<_,Orswot>, Map<_,MVReg>, Map<_,Map<_,Orswot>>, Map<_,Map<_,MVReg>>); replicas and fresh twins with equal knowledge compared on every read and context after every step under causal delivery.",
    "Trusts the simulator's knowledge-set bookkeeping. Map<_,MVReg>: keys where the MAP-T2 trigger (model-side) holds are exempted for extra written values only.", "DESIGN.md 3/C01")
add("C02", T_HIST + "metamorphic oracle: a+b=b+a, (a+b)+c=a+(b+c), a+a=a on triples of reachable states, gossip convergence",
    E + "Operands share history, hold observed-remote removes and pending removes and are results of earlier merges.",
    "Map: per-key exemptions MAP-T1/T3/T5 (model-side triggers); LWWReg markers unique.", "DESIGN.md 3/C02")
add("C03", T_HIST + "differential oracle: merged state vs ops-only twin fed the union of the ops",
    E + "After every step, and for generated pairs merge(state r1, state r2), reads equal those of a fresh replica that applied exactly the ops of the knowledge set.",
    "Compared states have causally closed knowledge for Orswot/Map/MVReg (operands may hold pending removes in the per-actor-order jobs), arbitrary knowledge for order-free types; Map exemptions MAP-T1/T2/T2b/T3/T5/T6 per key.", "DESIGN.md 3/C03")
add("C04", T_HIST + "reference model: dot-store specification of an observed-remove add-wins set (stateful/model-based)",
    E + "Every read entry point of the affected replica compared with the specification after every step, causal and per-actor delivery, duplicates, merges, stale merges. Strict: no exemption.",
    "Trusts the dot-store model (sets of op ids + integer comparisons); u8 members/actors (alphabets of 3 and of 16 members); each actor confined to one replica.", "DESIGN.md 3/C04")
add("C05", T_HIST + "reference model: recursive dot-store specification of Map keys and nested values at depth 1 and 2",
    E + "Keys, nested content at every depth, key witnesses and map clock compared with the specification after every step. Two strict sub-domains (Map<_,Orswot>, Map<_,Map<_,Orswot>> under causal op delivery) have no exemption.",
    "Exemptions per key (model-side triggers): MAP-T2 (MVReg leaves, extras only), MAP-T1 and MAP-T5 (merged lineage).", "DESIGN.md 3/C05")
add("C06", T_HIST + "reference model: knowledge-set model of the causally-maximal writes under arbitrary delivery",
    E + "read().val (multiset) and add_clock compared with the model after every step under ANY delivery order, duplicates, merges. Strict.",
    "Trusts the causal-past computation of the model; u16 values/u8 actors.", "DESIGN.md 3/C06")
add("C07", T_HIST + "model oracle on every read entry point's contexts + arithmetic/freshness oracle on derived contexts",
    E + "Every read entry point of top-level Orswot, Map (x2) and MVReg probed after every step; add/rm clocks vs model, derived dots fresh.",
    "Top-level replicas only; Map key witnesses after merges inherit MAP-T1 (exempted per key).", "DESIGN.md 3/C07")
add("C08", T_HIST + "differential oracle (non-causal vs causal delivery of the same op set) + reference model on intermediate reads",
    E + "Per-actor (FIFO) delivery for Orswot/Map, no ordering for MVReg and order-free types, newest-first bias so removes overtake; settle phase; merges of replicas holding pending removes; structured remove-storm generator (up to 26 removes pending at once); plain regression job for the repaired defect MAP-T3b.",
    "Exemptions per key: MAP-T3, MAP-T6, MAP-T2/T2b/T5 (extras only), MAP-T1. Orswot and MVReg strict.", "DESIGN.md 3/C08")
add("C09", T_HIST + "metamorphic oracle: state (reads and ==) unchanged by an already-known op or a subsumed state; model clause for non-resurrection",
    E + "Histories rich in re-deliveries and stale-snapshot merges; reads, contexts and == of the receiver must not change.",
    "Exemptions: reads MAP-T1/T2/T5 per key; == only: MAP-T4, MAP-T2b, MAP-T5.", "DESIGN.md 3/C09")
add("C10", "bounded-exhaustive enumeration (all clocks over 3-4 actors x counters 0..3, all pairs and triples) + property-based testing (proptest) against a BTreeMap model",
    E + "The exhaustive part is complete for its stated scope; per-actor independence makes it representative.",
    "Clocks are built through the API only; the model is a BTreeMap<actor,u64> with absent = 0.", "DESIGN.md 3/C10")
add("C11", T_HIST + "reference model: arithmetic over the knowledge set (sum of per-actor maxima, max/min, greatest marker, union)",
    E + "Any delivery order, duplicates, merges, stale merges; value and internal state tree compared after every step; dedicated colliding-marker job for LWWReg's conflict flag.",
    "One actor's counter total stays below u64::MAX - 2^40 (overflowing it is the caller's error) while sums over actors go beyond 2^64; LWWReg markers unique.", "DESIGN.md 3/C11")
add("C12", T_HIST + "invariant over the whole history: a single global total order exists (antisymmetric + acyclic 'before' relation across replicas and steps), membership model",
    E + "Delayed causal delivery with 3+ actors inserting into the same gap, duplicates; settle phase; per-replica identifier-order invariant; structured nested-duel generator reaching identifier depth >= 7.",
    "Causal delivery (List's documented contract).", "DESIGN.md 3/C12")
add("C13", T_HIST + "reference model: Vec model of index semantics, exhaustively over every index of each generated state",
    E + "Every index (and beyond) of reachable states with concurrently inserted siblings, for List and GList (insert, insert_after, insert_before).",
    "GList::insert only with idx <= len (documented precondition).", "DESIGN.md 3/C13")
add("C14", "bounded-exhaustive enumeration (all identifier paths of depth <=2/3 over a small alphabet) + property-based testing (proptest) against an independently written reference order",
    E + "Total order laws, density in both argument orders for every marker, one-sided between, marker uniqueness, chains of repeated between().",
    "Non-empty identifiers injected through serde (private constructor), reduced ratios.", "DESIGN.md 3/C14")
add("C15", "bounded-exhaustive enumeration (every DAG shape up to 5/6 nodes x every arrival order) + property-based testing (proptest) against a least-fixpoint model",
    E + "heads, counts, node/children/parents, ==, write-on-heads compared with the model after every arrival; any order, duplicates, merges.",
    "Distinct node hashes (unique fixed-length values).", "DESIGN.md 3/C15")
add("C16", T_HIST + "reference model of validate_op verdicts (exact error values) for every op at every replica and step",
    E + "Ops next in order, already applied and out of order are all probed; exact DotRange / SourceOrder / MissingChild / ConflictingMarker expectations.",
    "Known finding MAP-V1 exempted where its model-side trigger holds.", "DESIGN.md 3/C16")
add("C17", T_HIST + "oracle: Ok + direction independence under correct use; error whenever observed witnesses show a double-spent dot under deliberate actor reuse",
    E + "All pairs of current states and snapshots after every step, correct use and misuse (one actor at two replicas).",
    "Known finding ORSWOT-V2 exempted when the knowledge contains a multi-member add.", "DESIGN.md 3/C17")
add("C18", T_HIST + "pointwise reference model of reset_remove on the serde state tree + algebraic laws",
    E + "Reachable states x clocks generated relative to the state's clock (below/equal/above/concurrent/empty/slice).",
    "Pending-remove tables are not compared after a reset (iteration-order dependent collapse).", "DESIGN.md 3/C18")
add("C19", T_HIST + "round-trip oracle + lock-step differential against a never-serialised twin run of the same Plan",
    E + "Save/restore at arbitrary steps, every op round-tripped through JSON before every delivery.",
    "Known finding SERDE-D1 exempted when the model says the replica may hold a pending remove.", "DESIGN.md 3/C19")
add("C20", T_HIST + "differential oracle on == (equal knowledge, different routes) + residue invariant on the serde state tree + canonical state rebuilt from the model",
    E + "== in both directions (panics are failures) against peers and ops-only twins; no residue once removes are fully covered; top-level Orswot/MVReg == canonical.",
    "Map exemptions on ==/residue: MAP-T1, T2, T2b, T4, T5; top-level types strict.", "DESIGN.md 3/C20")
