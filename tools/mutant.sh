#!/bin/bash
# usage: tools/mutant.sh <patch.diff> <Cxx> [<Cxx>...]   -- apply a patch to /repo, run quick checks, always revert
set -u
PATCH="$(readlink -f "$1")"; shift
cd /repo || exit 2
if [ -n "$(git status --porcelain --untracked-files=no)" ]; then echo "/repo not clean" >&2; exit 2; fi
trap 'git -C /repo checkout -- . ; ' EXIT
git apply "$PATCH" || { echo "patch does not apply" >&2; exit 2; }
for id in "$@"; do
  out=$(cd /verif && VERIF_SEED=${VERIF_SEED:-0} ./check "$id" ${TIER:-quick} 2>&1); rc=$?
  echo "== $id rc=$rc"; echo "$out" | grep -E "VIOLATION|KNOWN-FINDING|BUILD-FAILED|DEGENERATE|^\[C" | head -8
done
