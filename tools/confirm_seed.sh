#!/bin/bash
# usage: tools/confirm_seed.sh <Cxx> <dir-with-SEEDED> [suffix]
# Independently confirms a sub-agent's seeded change in a FRESH scratch worktree of /repo (outside /repo and /verif):
#   patch applies to HEAD, crate builds, the pinned test-suite passes with it, the demo fails with it and passes without it.
# On success copies patch.diff / demo / notes into /verif/seeded/<Cxx><suffix>/ and writes confirm.json; removes the worktree.
set -u
ID="$1"; SRC="$2"; SUF="${3:-}"
W=/tmp/confirm/$ID$SUF
rm -rf "$W"; mkdir -p /tmp/confirm
git -C /repo worktree add -q "$W" HEAD || exit 2
cp /repo/Cargo.lock "$W/" 2>/dev/null
cd "$W" || exit 2
export CARGO_NET_OFFLINE=true
res() { echo "$1" ; }
git apply "$SRC/SEEDED/patch.diff" || { echo "PATCH-DOES-NOT-APPLY"; git -C /repo worktree remove --force "$W"; exit 1; }
cp "$SRC/SEEDED/seeded_demo.rs" examples/seeded_demo.rs
cargo build --offline --quiet 2>/dev/null || { echo "BUILD-FAILS"; git -C /repo worktree remove --force "$W"; exit 1; }
T=$(cargo test --offline --workspace --no-fail-fast -- --skip prop_op_reordering_converges 2>&1 | grep -E "^test result" )
PASSED=$(echo "$T" | sed -E 's/.* ([0-9]+) passed.*/\1/' | paste -sd+ | bc)
FAILED=$(echo "$T" | sed -E 's/.* ([0-9]+) failed.*/\1/' | paste -sd+ | bc)
cargo run --offline --quiet --example seeded_demo >/tmp/confirm/$ID$SUF.with.txt 2>&1; RC_WITH=$?
git checkout -q -- src
cargo run --offline --quiet --example seeded_demo >/tmp/confirm/$ID$SUF.without.txt 2>&1; RC_WITHOUT=$?
echo "$ID$SUF: tests passed=$PASSED failed=$FAILED demo_with_change_rc=$RC_WITH demo_without_change_rc=$RC_WITHOUT"
OK=0
if [ "$FAILED" = "0" ] && [ "$PASSED" = "157" ] && [ $RC_WITH -ne 0 ] && [ $RC_WITHOUT -eq 0 ]; then OK=1; fi
if [ $OK -eq 1 ]; then
  D=/verif/seeded/$ID$SUF; mkdir -p $D
  cp "$SRC/SEEDED/patch.diff" "$SRC/SEEDED/seeded_demo.rs" $D/
  cp "$SRC/SEEDED/notes.md" $D/agent_notes.md 2>/dev/null
  cat > $D/confirm.json <<J
{"property": "$ID", "confirmed_in": "fresh git worktree of /repo HEAD under /tmp/confirm (removed afterwards)",
 "commands": ["git apply patch.diff", "cargo build --offline", "cargo test --offline --workspace --no-fail-fast -- --skip prop_op_reordering_converges", "cargo run --offline --example seeded_demo (with the change)", "git checkout -- src; cargo run --offline --example seeded_demo (without)"],
 "tests_passed_with_change": $PASSED, "tests_failed_with_change": $FAILED, "demo_exit_with_change": $RC_WITH, "demo_exit_without_change": $RC_WITHOUT}
J
  echo "CONFIRMED -> $D"
else
  echo "NOT CONFIRMED"
fi
cd /; git -C /repo worktree remove --force "$W"
[ $OK -eq 1 ]
