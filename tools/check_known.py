#!/usr/bin/env python3
"""Verifies that every OPEN entry of known_findings.json still reproduces (its check prints the KNOWN-FINDING line) and that no
'fixed' entry fails.  Run after any change to the history interpreter (Plans are re-interpreted, so replays can go stale)."""
import json, subprocess, collections, os, sys
VERIF = os.path.dirname(os.path.dirname(os.path.abspath(__file__)))
BIN = os.environ.get('VCHECK_BIN', os.path.join(VERIF, 'harness/target/release/vcheck'))
kf = json.load(open(os.path.join(VERIF, 'known_findings.json')))
bad = 0
for p in sorted({e['property'] for e in kf}):
    r = subprocess.run([BIN, p, '--job', '__none__', '--verif', VERIF], capture_output=True, text=True)
    got = [l.split('class=')[1].split()[0] for l in r.stdout.splitlines() if l.startswith('KNOWN-FINDING')]
    exp = [e['class'] for e in kf if e['property'] == p and e['status'] != 'fixed']
    miss = [c for c in exp if c not in got]
    viol = [l for l in r.stdout.splitlines() if l.startswith('VIOLATION')]
    print(p, 'open', len(exp), 'reproduced', len(set(got)), 'MISSING', miss, 'regressions', len(viol))
    bad += len(miss) + len(viol)
for f in ['evidence/%s.partial.json' % p for p in {e['property'] for e in kf}]:
    try: os.remove(os.path.join(VERIF, f))
    except OSError: pass
sys.exit(1 if bad else 0)
