#!/usr/bin/env python3
"""writes /verif/seeded/<id>/meta.json from confirm.json, the agent's notes and the list of checks that caught the change"""
import json, os, sys, re
sid, caught, infra = sys.argv[1], sys.argv[2].split(), sys.argv[3].split()
d = f"/verif/seeded/{sid}"
prop = re.match(r"(C\d+)", sid).group(1)
confirm = json.load(open(f"{d}/confirm.json")) if os.path.exists(f"{d}/confirm.json") else {}
notes = open(f"{d}/agent_notes.md").read() if os.path.exists(f"{d}/agent_notes.md") else ""
# "what it needs to manifest": take the paragraph(s) of the notes that mention it
needs = ""
m = re.search(r"(?is)(what it needs.*?)(?:\n#+ |\n\*\*[A-Z][^\n]*\*\*\n|\Z)", notes)
if m: needs = m.group(1).strip()[:1500]
meta = {
 "breaks_property": prop,
 "origin": "written by an independent sub-agent that was given only the property record and its own scratch git worktree of /repo (nothing from /verif)",
 "files": {"patch.diff": "the change to rust-crdt (applies to /repo HEAD)", "seeded_demo.rs": "demonstration program (examples/seeded_demo.rs): fails with the change, passes without", "agent_notes.md": "the author's own description"},
 "needs_to_manifest": needs or "see agent_notes.md",
 "confirmed_by_me": confirm,
 "checks_run_against_it": "git -C /repo apply patch.diff; ./check Cxx quick for all 20 properties (VERIF_SEED=0); git -C /repo checkout -- .",
 "caught_by_quick_checks": caught,
 "own_property_catches_it": prop in caught,
 "infrastructure_exits": infra,
}
if os.path.exists(f"{d}/patch.orig-snapshot.diff"):
    meta["note"] = "patch.diff is the author's change rebased (context lines only) onto /repo HEAD after the fix: commit; patch.orig-snapshot.diff is the original against the pinned snapshot"
json.dump(meta, open(f"{d}/meta.json", "w"), indent=1)
