#!/bin/bash
# usage: tools/run_seeded_own.sh [id-substring]  -- for each /verif/seeded/<id>: apply the change to /repo, run ONLY the quick check of the
# property it breaks (with the current harness), revert; records the outcome in meta.json ("own_property_final").
cd /repo || exit 2
[ -n "$(git status --porcelain --untracked-files=no)" ] && { echo "/repo not clean"; exit 2; }
trap 'git -C /repo checkout -- .' EXIT
for d in /verif/seeded/*${1:-}*/; do
  id=$(basename "$d"); prop=${id:0:3}
  git -C /repo apply "$d/patch.diff" || { echo "$id PATCH-FAILED"; continue; }
  (cd /verif && VERIF_SEED=${VERIF_SEED:-0} ./check $prop quick >/tmp/seed_own_out.txt 2>&1); rc=$?
  git -C /repo checkout -- .
  echo "$id own-property $prop rc=$rc"
  python3 - "$d" "$prop" "$rc" <<'PY'
import json, sys
d, prop, rc = sys.argv[1], sys.argv[2], int(sys.argv[3])
p = d + "meta.json"
try: m = json.load(open(p))
except Exception: m = {"breaks_property": prop}
m["own_property_final"] = {"check": f"./check {prop} quick (VERIF_SEED=0, final harness)", "exit": rc, "caught": rc == 1}
json.dump(m, open(p, "w"), indent=1)
PY
done
rm -f /verif/replays/C*-*.json
(cd /verif && git checkout -- evidence 2>/dev/null)
