#!/bin/bash
# Applies each /verif/benign/*.diff (semantics-preserving / property-improving change) to /repo, runs the pinned test-suite and
# ALL quick checks, reverts.  Every check must stay silent: any VIOLATION here is a FALSE ALARM of the machinery.
OUT=/verif/benign/RESULTS.txt; : > $OUT
cd /repo || exit 2
[ -n "$(git status --porcelain --untracked-files=no)" ] && { echo "/repo not clean"; exit 2; }
trap 'git -C /repo checkout -- .' EXIT
for d in /verif/benign/*${1:-}*.diff; do
  name=$(basename "$d" .diff)
  git -C /repo apply "$d" || { echo "$name PATCH-FAILED" >> $OUT; continue; }
  T=$(cd /repo && CARGO_NET_OFFLINE=true cargo test --offline --workspace --no-fail-fast -- --skip prop_op_reordering_converges 2>&1 | grep -E "^test result")
  FAILED=$(echo "$T" | sed -E 's/.* ([0-9]+) failed.*/\1/' | paste -sd+ | bc)
  alarms=""; infra=""
  for id in C01 C02 C03 C04 C05 C06 C07 C08 C09 C10 C11 C12 C13 C14 C15 C16 C17 C18 C19 C20; do
    (cd /verif && VERIF_SEED=${VERIF_SEED:-0} ./check $id quick >/tmp/benign_out.txt 2>&1); rc=$?
    if [ $rc -eq 1 ]; then alarms="$alarms $id"; elif [ $rc -ne 0 ]; then infra="$infra $id"; fi
  done
  git -C /repo checkout -- .
  echo "$name pinned_tests_failed=$FAILED FALSE-ALARMS:$alarms | INFRA:$infra" | tee -a $OUT
done
rm -f /verif/replays/C*-*.json
(cd /verif && git checkout -- evidence 2>/dev/null)
