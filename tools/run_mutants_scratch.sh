#!/bin/bash
# usage: tools/run_mutants_scratch.sh [slots]
# Mutant matrix WITHOUT touching /repo or /verif/harness: every mutants/*.diff is applied to its own scratch worktree of /repo HEAD
# (under /tmp/mw, removed afterwards), a private copy of the harness is built against that worktree, and all 20 quick tiers are run
# with the vcheck binary directly (same engine, budgets and seed as `./check <id> quick`; no fuzzing in the quick tier anyway).
# Result lines go to mutants/RESULTS.txt.  CHECKS="C03 C09" restricts the checks run; OWN_ONLY=1 runs only the check named by the first three letters of the patch name.  `slots` mutants are processed in parallel (default 3).
SLOTS=${1:-3}
OUT=${OUT:-/verif/mutants/RESULTS.txt}
# PATCHES: space-separated list of name=path pairs (default: every mutants/*.diff under its file name)
MW=${MW:-/tmp/mw}
: > $OUT
mkdir -p $MW
# snapshot of the harness at start, so that later edits under /verif/harness do not leak into a running matrix
rsync -a --delete --exclude target /verif/harness/ $MW/harness_snapshot/
one() {
  d="${1#*=}"; slot="$2"; name="${1%%=*}"
  WT=$MW/wt_$slot; H=$MW/h_$slot; O=$MW/out_$slot
  git -C /repo worktree remove --force $WT >/dev/null 2>&1; rm -rf $WT $O
  git -C /repo worktree add -q --detach $WT HEAD || { echo "$name WORKTREE-FAILED" >> $OUT; return; }
  (cd $WT && git apply "$d") || { echo "$name PATCH-FAILED" >> $OUT; git -C /repo worktree remove --force $WT; return; }
  mkdir -p $H && rsync -a --delete $MW/harness_snapshot/ $H/src_copy/ && sed -i "s#path = \"/repo\"#path = \"$WT\"#" $H/src_copy/Cargo.toml
  find $H/src_copy -name '*.rs' -exec touch {} +
  (cd $H/src_copy && CARGO_NET_OFFLINE=true CARGO_TARGET_DIR=$H/target cargo build --release >$MW/build_$slot.log 2>&1) || { echo "$name BUILD-FAILED" >> $OUT; git -C /repo worktree remove --force $WT; return; }
  mkdir -p $O/replays; cp /verif/known_findings.json $O/; cp -r /verif/replays/known /verif/replays/fixed $O/replays/
  caught=""; infra=""
  for id in ${CHECKS:-C01 C02 C03 C04 C05 C06 C07 C08 C09 C10 C11 C12 C13 C14 C15 C16 C17 C18 C19 C20}; do
    [ -n "${OWN_ONLY:-}" ] && [ "$id" != "${name:0:3}" ] && continue
    timeout --signal=KILL 900 $H/target/release/vcheck $id --tier quick --seed ${VERIF_SEED:-0} --verif $O >$MW/run_$slot.txt 2>&1; rc=$?
    if [ $rc -eq 1 ]; then caught="$caught $id"; elif [ $rc -ne 0 ]; then infra="$infra $id"; fi
  done
  echo "$name CAUGHT:$caught | INFRA:$infra" >> $OUT
  echo "$name CAUGHT:$caught | INFRA:$infra"
  git -C /repo worktree remove --force $WT; rm -rf $O
}
i=0
if [ -z "${PATCHES:-}" ]; then for d in /verif/mutants/*.diff; do PATCHES="$PATCHES $(basename $d .diff)=$d"; done; fi
for d in $PATCHES; do
  slot=$((i % SLOTS)); i=$((i+1))
  echo "$d $slot"
done > $MW/plan.txt
for s in $(seq 0 $((SLOTS-1))); do
  ( grep " $s\$" $MW/plan.txt | while read d slot; do one "$d" "$slot"; done ) &
done
wait
sort -o $OUT $OUT
rm -rf $MW
