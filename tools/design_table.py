#!/usr/bin/env python3
"""prints the section-7.1 table of DESIGN.md from the evidence files (run after `./check <id> quick` for all ids)"""
import json
print("| id | jobs | cases (quick) | distinct non-trivial | observations | wall (this run) | drivers |")
print("|---|---|---|---|---|---|---|")
for i in range(1, 21):
    pid = f"C{i:02d}"
    e = json.load(open(f"/verif/evidence/{pid}.json"))
    c = e["coverage"]
    jobs = c["jobs"]
    big = sum(1 for j in jobs if "members]" in j["job"] or "keys]" in j["job"])
    drivers = "enumeration + proptest" if c.get("exhaustive") or c.get("exhaustive_scopes") else "proptest"
    print(f"| {pid} | {len(jobs)}" + (f" ({big} big-alphabet)" if big else "") + f" | {c['evaluations']:,} | {c['distinct_nontrivial']:,} | {c['observations']:,} | {e['wall_s']:.0f} s | {drivers} |")
