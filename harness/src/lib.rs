pub mod engine;
pub mod model;
pub mod plan;
pub mod props;
pub mod sim;
pub mod subject;
pub mod tree;
