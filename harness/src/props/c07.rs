//! C07 — read contexts are exact causal witnesses; derived dots are fresh.
use super::common::*;
use super::exempt::Class;
use super::generic::*;
use crate::engine::*;
use crate::model::dotstore::Store;
use crate::plan::*;
use crate::sim::*;
use crate::subject::{map::*, mvreg::*, orswot::*};
use serde_json::Value;

fn check_contexts<S: Subject>(plan: &Plan, ctx: &Ctx, stats: &mut Stats) -> Result<(), Fail> {
    let mut sim = new_sim::<S>(plan, &ctx.cfg, stats);
    let mut nontrivial = false;
    for step in &plan.steps {
        let ev = sim.step(step);
        let Some(r) = affected(&ev) else { continue };
        let know = sim.reps[r].know;
        let got = S::observe(&sim.reps[r].st);
        let want = S::predict(&sim.metas, know).expect("model");
        let d = diff_on_model(&got, &want);
        if let Err(f) = judge(&sim, stats, ctx, know, &lineage(&sim, r), &d, "contexts/witnesses differ from the specification", r, &got, &want) {
            return Err(fail_with(&sim, stats, f));
        }
        // every read entry point, contexts derived for the replica's own actor and for foreign actors
        let mut actors: Vec<u8> = sim.reps.iter().filter_map(|x| x.actor).collect();
        actors.push(200); // an actor nobody uses
        let own = sim.reps[r].actor;
        let issued_max = |a: u8| -> u64 { sim.metas.iter().filter_map(|m| m.sem.dot()).filter(|d| d.0 == a).map(|d| d.1).max().unwrap_or(0) };
        let model_clock = want.get("clock").cloned().unwrap_or(Value::Null);
        for p in S::ctx_probes(&sim.reps[r].st, &actors) {
            stats.observations += 1;
            let fail = |msg: String| Fail::new(format!("r{r}: read entry point {}: {msg}", p.entry));
            if let Some(n) = &p.note {
                return Err(fail_with(&sim, stats, fail(n.clone())));
            }
            if clock_json(&p.add_clock) != model_clock {
                return Err(fail_with(&sim, stats, fail(format!("add_clock {:?} is not the clock of everything applied {model_clock}", p.add_clock))));
            }
            match &p.elem {
                None => {
                    if p.rm_clock != p.add_clock {
                        return Err(fail_with(&sim, stats, fail(format!("whole-state read: rm_clock {:?} != add_clock {:?}", p.rm_clock, p.add_clock))));
                    }
                }
                Some(e) => {
                    let g = got.get(e).cloned().unwrap_or(Value::Null);
                    if clock_json(&p.rm_clock) != g["witness"] {
                        return Err(fail_with(&sim, stats, fail(format!("rm_clock {:?} differs from the element's witness {}", p.rm_clock, g["witness"]))));
                    }
                    if p.rm_clock.is_empty() != !g["present"].as_bool().unwrap_or(false) {
                        return Err(fail_with(&sim, stats, fail(format!("rm_clock {:?} empty-ness does not match presence {}", p.rm_clock, g["present"]))));
                    }
                    if !leq(&p.rm_clock, &p.add_clock) {
                        return Err(fail_with(&sim, stats, fail(format!("rm_clock {:?} exceeds add_clock {:?}", p.rm_clock, p.add_clock))));
                    }
                }
            }
            if p.derived_rm != p.rm_clock {
                return Err(fail_with(&sim, stats, fail(format!("derive_rm_ctx().clock {:?} != rm_clock {:?}", p.derived_rm, p.rm_clock))));
            }
            for (a, dot, clock) in &p.derived {
                let base = p.add_clock.get(a).copied().unwrap_or(0);
                if *dot != (*a, base + 1) {
                    return Err(fail_with(&sim, stats, fail(format!("derive_add_ctx({a}).dot = {dot:?}, expected ({a}, {})", base + 1))));
                }
                let mut exp = p.add_clock.clone();
                join_dot(&mut exp, *dot);
                if *clock != exp {
                    return Err(fail_with(&sim, stats, fail(format!("derive_add_ctx({a}).clock = {clock:?}, expected add_clock joined with the dot = {exp:?}"))));
                }
                if Some(*a) == own && dot.1 <= issued_max(*a) {
                    return Err(fail_with(&sim, stats, fail(format!("derive_add_ctx({a}) at the actor's own replica re-issues dot {dot:?} (already used up to {})", issued_max(*a)))));
                }
            }
        }
        // non-trivial: >=2 actors in the clock, a removed element, an element witnessed by two actors
        let two_actors = model_clock.as_object().map(|m| m.len() >= 2).unwrap_or(false);
        let ds = Store::build(&sim.metas, know);
        let removed = ds.leaves.iter().any(|l| !ds.survives(l)) || S::name().starts_with("MVReg");
        let two_wit = want.iter().any(|(k, v)| (k.starts_with("member:") || k.starts_with("key:")) && v["witness"].as_object().map(|m| m.len() >= 2).unwrap_or(false)) || S::name().starts_with("MVReg");
        if two_actors && removed && two_wit {
            nontrivial = true;
        }
    }
    classify_common(&sim, stats);
    if nontrivial {
        stats.cur_nontrivial = true;
        stats.class("nontrivial");
    }
    finish(&sim, stats);
    Ok(())
}

fn add<S: Subject>(jobs: &mut Vec<Box<dyn JobT>>, variant: &str, disc: Disc, w: Weights, ex: &[Class], q: u64, t: u64) {
    let pc = PlanCfg::new(w).steps(4, 26);
    let pc = pc.long_share(S::LONG);
    let ctx = Ctx::new(disc).ex(ex);
    jobs.push(mk_job(format!("{}/{:?}/{variant}", S::name(), disc), q, t, pc, ctx, check_contexts::<S>).floor("nontrivial", 0.05).boxed());
}

pub fn property() -> Property {
    let mut jobs: Vec<Box<dyn JobT>> = Vec::new();
    add::<SOrswot>(&mut jobs, "ops", Disc::Causal, Weights::ops_only(), &[], 15000, 150_000);
    add::<SOrswotBig>(&mut jobs, "ops", Disc::Causal, Weights::ops_only(), &[], 3750, 37500);
    add::<SOrswot>(&mut jobs, "ops+merges", Disc::Fifo, Weights::mixed(), &[], 15000, 150_000);
    add::<SOrswotBig>(&mut jobs, "ops+merges", Disc::Fifo, Weights::mixed(), &[], 3750, 37500);
    add::<SMVReg>(&mut jobs, "ops+merges", Disc::Any, Weights::mixed(), &[], 15000, 150_000);
    add::<MapOrswot>(&mut jobs, "ops (strict)", Disc::Causal, Weights::ops_only(), &[], 15000, 150_000);
    add::<MapOrswotBig>(&mut jobs, "ops (strict)", Disc::Causal, Weights::ops_only(), &[], 3750, 37500);
    add::<MapOrswot>(&mut jobs, "ops+merges", Disc::Causal, Weights::mixed(), &[Class::T1], 15000, 150_000);
    add::<MapOrswotBig>(&mut jobs, "ops+merges", Disc::Causal, Weights::mixed(), &[Class::T1], 3750, 37500);
    add::<MapMVReg>(&mut jobs, "ops", Disc::Causal, Weights::ops_only(), &[Class::T2], 15000, 150_000);
    add::<MapMVRegBig>(&mut jobs, "ops", Disc::Causal, Weights::ops_only(), &[Class::T2], 3750, 37500);
    add::<MapMVReg>(&mut jobs, "ops+merges", Disc::Causal, Weights::mixed(), &[Class::T1, Class::T2, Class::T5], 15000, 150_000);
    add::<MapMVRegBig>(&mut jobs, "ops+merges", Disc::Causal, Weights::mixed(), &[Class::T1, Class::T2, Class::T5], 3750, 37500);
    Property {
        id: "C07",
        rule: "The C04/C05/C06 histories on TOP-LEVEL Orswot, Map<u8,Orswot>, Map<u8,MVReg> and MVReg; after every step every read entry point of the affected replica (read, read_ctx, contains(m) for every member, get(k) for every key, iter, keys, values, len, is_empty -- each also through ReadCtx::split(), which must keep value and both clocks) is called and contexts are derived for the replica's own actor, every other replica's actor and an unused actor. Oracle: add_clock = per-actor max dot of the knowledge set (MVReg: join of the visible writes' contexts); whole-state reads have rm_clock == add_clock; element reads have rm_clock == exact surviving witness (model), empty iff absent, <= add_clock; derive_add_ctx(a).dot == (a, add_clock[a]+1), .clock == add_clock joined with the dot, and at the actor's own replica the dot is greater than every dot that actor ever issued (globally fresh); derive_rm_ctx().clock == rm_clock. Non-trivial = probed state whose clock mentions >=2 actors, with >=1 removed element and >=1 element witnessed by two actors; distinct = distinct Plan hash.".into(),
        assumptions: vec!["top-level replicas only (not values nested in a Map), as the property states".into(), "Map key witnesses after merges inherit MAP-T1 (exempted per key, counted); Map<_,MVReg> values MAP-T2/T5 (extras only; witnesses must still match)".into()],
        jobs,
    }
}
