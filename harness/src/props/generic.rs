//! Generic, subject-independent oracles: model comparison, convergence, merge laws, hybrid
//! (merge vs ops), overtaking removes, absorption.
use super::common::*;
use super::exempt::{explain, Class, Lineage};
use crate::engine::*;
use crate::plan::*;
use crate::sim::*;
use serde_json::json;

#[derive(Clone)]
pub struct Ctx {
    pub cfg: RunCfg,
    pub ex: Vec<Class>,
}
impl Ctx {
    pub fn new(disc: Disc) -> Self {
        Ctx { cfg: RunCfg::new(disc), ex: Vec::new() }
    }
    pub fn ex(mut self, c: &[Class]) -> Self {
        self.ex = c.to_vec();
        self
    }
    pub fn newest(mut self) -> Self {
        self.cfg.newest_first = true;
        self
    }
    pub fn closed_edits(mut self) -> Self {
        self.cfg.edit_closed_only = true;
        self
    }
}

pub fn lineage<S: Subject>(sim: &Sim<S>, r: usize) -> Lineage {
    Lineage { merged: sim.reps[r].merged, noncausal: sim.reps[r].noncausal }
}

/// restricted diff: only the points the (possibly partial) model predicts
pub fn diff_on_model(got: &Obs, want: &Obs) -> Vec<String> {
    want.iter().filter(|(k, v)| got.get(*k) != Some(v)).map(|(k, _)| k.clone()).collect()
}

/// Decide a mismatch: tolerated if explained by an enabled known-finding class (and not strict).
#[allow(clippy::too_many_arguments)]
pub fn judge<S: Subject>(sim: &Sim<S>, stats: &mut Stats, ctx: &Ctx, know: Bits, lin: &Lineage, d: &[String], what: &str, r: usize, got: &Obs, want: &Obs) -> Result<(), Fail> {
    if d.is_empty() {
        return Ok(());
    }
    if !stats.strict {
        let pred = if ctx.ex.is_empty() { None } else { S::predict(&sim.metas, know) };
        if let Some(class) = explain(sim, know, lin, d, got, want, pred.as_ref(), &ctx.ex) {
            stats.exempt(class);
            return Ok(());
        }
    }
    Err(Fail::with(mismatch_msg(what, r, d, got, want), json!({"points": d})))
}

pub fn classify_common<S: Subject>(sim: &Sim<S>, stats: &mut Stats) {
    if has_concurrent_same_elem(&sim.metas) {
        stats.class("concurrent ops on the same element");
    }
    if has_remote_observed_remove(&sim.metas) {
        stats.class("remove that observed a remote update");
    }
    if sim.reps.iter().any(|r| r.merged) {
        stats.class("has merge");
    }
    if sim.reps.iter().any(|r| r.noncausal) {
        stats.class("some replica held non-causally-closed knowledge");
    }
    if actors_with_dots(&sim.metas) >= 3 {
        stats.class("3+ actors issued dots");
    }
    {
        // widest knowledge: the largest number of distinct actors whose dots one replica knows
        let widest = sim.reps.iter().map(|r| {
            let mut a: Vec<u8> = bits_iter(r.know).filter_map(|o| sim.metas[o].sem.dot().map(|d| d.0)).collect();
            a.sort();
            a.dedup();
            a.len()
        }).max().unwrap_or(0);
        if widest >= 8 {
            stats.class("some replica knows updates of 8+ actors");
        }
        if widest >= 12 {
            stats.class("some replica knows updates of 12+ actors");
        }
        if sim.ops.len() >= 60 {
            stats.class("60+ ops in the history");
        }
    }
    {
        // container size (only the big-alphabet subjects get beyond 3)
        let mut nested_biggest = 0usize;
        let biggest = sim
            .reps
            .iter()
            .map(|r| {
                let o = S::observe(&r.st);
                for (k, v) in o.iter() {
                    if k.starts_with("key:") {
                        if let Some(a) = v.get("val").and_then(|x| x.as_array()) {
                            nested_biggest = nested_biggest.max(a.len());
                        }
                    }
                }
                o.get("members").or_else(|| o.get("keys")).and_then(|v| v.as_array()).map(|a| a.len()).unwrap_or(0)
            })
            .max()
            .unwrap_or(0);
        if nested_biggest >= 5 {
            stats.class("a nested set / register under one key holds 5+ members / values");
        }
        if biggest >= 6 {
            stats.class("some replica ends with 6+ members / keys");
        }
        if biggest >= 8 {
            stats.class("some replica ends with 8+ members / keys");
        }
        if sim.metas.iter().any(|m| matches!(&m.sem, Sem::SetRm { members, .. } if members.len() >= 6)) {
            stats.class("a remove naming 6+ members");
        }
    }
    if sim.metas.iter().any(|m| m.call.contains("EARLIER")) {
        stats.class("remove built from a stale (earlier) read context");
    }
    if pending_remove_somewhere(sim) {
        stats.class("ends with a pending (overtaking) remove somewhere");
    }
}

/// model view of "replica holds a pending remove": a known remove whose context is not covered by
/// the dots the replica knows
pub fn pending_remove<S: Subject>(sim: &Sim<S>, know: Bits) -> bool {
    let mut clock = Clock::new();
    for o in bits_iter(know) {
        if let Some(d) = sim.metas[o].sem.dot() {
            join_dot(&mut clock, d);
        }
    }
    bits_iter(know).any(|o| match remove_ctx(&sim.metas[o].sem) {
        Some(ctx) => !leq(ctx, &clock),
        None => false,
    })
}
pub fn pending_remove_somewhere<S: Subject>(sim: &Sim<S>) -> bool {
    sim.reps.iter().any(|r| pending_remove(sim, r.know))
}

fn has_removes(metas: &[OpMeta]) -> bool {
    metas.iter().any(|m| m.sem.is_remove())
}

// ------------------------------------------------------------------------------------------------
// model comparison after every step (C04, C05, C06; intermediate reads of C08)

pub fn check_model<S: Subject>(plan: &Plan, ctx: &Ctx, stats: &mut Stats, nontrivial: &dyn Fn(&Sim<S>) -> bool, what: &str) -> Result<(), Fail> {
    let mut sim = new_sim::<S>(plan, &ctx.cfg, stats);
    for step in &plan.steps {
        let ev = sim.step(step);
        if let Some(r) = affected(&ev) {
            let got = S::observe(&sim.reps[r].st);
            let want = S::predict(&sim.metas, sim.reps[r].know).expect("subject has a model");
            stats.observations += want.len() as u64;
            let d = diff_on_model(&got, &want);
            if let Err(f) = judge(&sim, stats, ctx, sim.reps[r].know, &lineage(&sim, r), &d, what, r, &got, &want) {
                return Err(fail_with(&sim, stats, f));
            }
        }
    }
    // settle twins: two fresh replicas are fed ALL ops one by one in generated orders that respect the job's delivery
    // discipline, and compared with the model after every single op: these replicas end up knowing every actor's
    // updates (wide clocks, many witnesses per element), which the simulated replicas of a short history rarely do
    let all = sim.all_bits();
    if all != 0 {
        for round in 0..2usize {
            let mut picks: Vec<u16> = plan.settle.iter().map(|p| if round == 0 { *p } else { !*p }).collect();
            let rot = round * 3 % picks.len().max(1);
            picks.rotate_left(rot);
            let mut st = S::init();
            let mut know: Bits = 0;
            let mut remaining: Vec<usize> = bits_vec(all);
            let mut pi = 0usize;
            let mut noncausal = false;
            while !remaining.is_empty() {
                let el: Vec<usize> = remaining
                    .iter()
                    .copied()
                    .filter(|&o| match ctx.cfg.disc {
                        Disc::Any => true,
                        Disc::Fifo => sim.earlier_of_author(o) & !know == 0,
                        Disc::Causal => sim.metas[o].deps & !know == 0,
                    })
                    .collect();
                let pick = picks[pi % picks.len().max(1)];
                pi += 1;
                let o = if ctx.cfg.newest_first && pick & 1 == 0 { *el.last().unwrap() } else { el[idx(pick, el.len())] };
                S::apply(&mut st, sim.ops[o].clone());
                know |= bit(o);
                remaining.retain(|x| *x != o);
                if !noncausal && !sim.closed(know) {
                    noncausal = true;
                }
                let got = S::observe(&st);
                let want = S::predict(&sim.metas, know).expect("subject has a model");
                stats.observations += want.len() as u64;
                let d = diff_on_model(&got, &want);
                let lin = Lineage { merged: false, noncausal };
                if let Err(f) = judge(&sim, stats, ctx, know, &lin, &d, &format!("{what} (fresh replica fed all ops one by one; after op#{o})"), 0, &got, &want) {
                    return Err(fail_with(&sim, stats, f));
                }
            }
        }
    }
    classify_common(&sim, stats);
    if nontrivial(&sim) {
        stats.cur_nontrivial = true;
        stats.class("nontrivial");
    }
    finish(&sim, stats);
    Ok(())
}

// ------------------------------------------------------------------------------------------------
// C01: equal knowledge (under causal delivery) => equal observations

fn strip(order: &[i32]) -> Vec<i32> {
    order.iter().copied().filter(|x| *x >= 0).collect()
}

pub fn check_converge<S: Subject>(plan: &Plan, ctx: &Ctx, stats: &mut Stats) -> Result<(), Fail> {
    let mut sim = new_sim::<S>(plan, &ctx.cfg, stats);
    let n = sim.reps.len();
    let mut obs: Vec<Obs> = (0..n).map(|r| S::observe(&sim.reps[r].st)).collect();
    let mut diff_order_pair = false;
    for step in &plan.steps {
        let ev = sim.step(step);
        if let Some(r) = affected(&ev) {
            obs[r] = S::observe(&sim.reps[r].st);
            for q in 0..n {
                if q != r && sim.reps[q].know == sim.reps[r].know && sim.reps[r].know != 0 {
                    stats.observations += obs[r].len() as u64;
                    if strip(&sim.reps[q].order) != strip(&sim.reps[r].order) {
                        diff_order_pair = true;
                    }
                    let d = diff_points(&obs[r], &obs[q]);
                    let lin = Lineage { merged: sim.reps[r].merged || sim.reps[q].merged, noncausal: false };
                    if let Err(f) = judge(&sim, stats, ctx, sim.reps[r].know, &lin, &d, &format!("replicas r{r} and r{q} applied the same set of ops (causal delivery) but read differently; r{q} is 'expected'"), r, &obs[r], &obs[q]) {
                        return Err(fail_with(&sim, stats, f));
                    }
                }
            }
        }
    }
    // settle: every replica against a fresh replica fed the same set in another causal order
    for r in 0..n {
        let know = sim.reps[r].know;
        if know == 0 {
            continue;
        }
        let mut picks: Vec<u16> = plan.settle.clone();
        picks.rotate_left(r % plan.settle.len().max(1));
        let (twin, order) = sim.replay_order(know, &picks, Disc::Causal);
        if order != strip(&sim.reps[r].order) && order.len() >= 2 {
            diff_order_pair = true;
        }
        let t = S::observe(&twin);
        stats.observations += t.len() as u64;
        let d = diff_points(&obs[r], &t);
        let lin = Lineage { merged: sim.reps[r].merged, noncausal: false };
        if let Err(f) = judge(&sim, stats, ctx, know, &lin, &d, &format!("replica r{r} differs from a fresh replica that applied the same ops in causal order {order:?} ('expected')"), r, &obs[r], &t) {
            return Err(fail_with(&sim, stats, f));
        }
    }
    // full set in two further causal orders
    let all = sim.all_bits();
    if all != 0 {
        let (t1, o1) = sim.replay_order(all, &plan.settle, Disc::Causal);
        let mut rev: Vec<u16> = plan.settle.iter().map(|p| !*p).collect();
        rev.reverse();
        let (t2, o2) = sim.replay_order(all, &rev, Disc::Causal);
        let (a, b) = (S::observe(&t1), S::observe(&t2));
        stats.observations += a.len() as u64;
        if o1 != o2 {
            diff_order_pair = true;
        }
        let d = diff_points(&a, &b);
        let lin = Lineage { merged: false, noncausal: false };
        if let Err(f) = judge(&sim, stats, ctx, all, &lin, &d, &format!("two fresh replicas that applied ALL ops in causal orders {o1:?} and {o2:?} read differently"), 0, &a, &b) {
            return Err(fail_with(&sim, stats, f));
        }
    }
    classify_common(&sim, stats);
    if diff_order_pair {
        stats.class("equal knowledge reached through different delivery orders");
    }
    let needs_rm = has_removes(&sim.metas) || !subject_has_removes::<S>();
    if diff_order_pair && has_concurrent_same_elem(&sim.metas) && needs_rm && (has_remote_observed_remove(&sim.metas) || !subject_has_removes::<S>()) {
        stats.cur_nontrivial = true;
        stats.class("nontrivial");
    }
    finish(&sim, stats);
    Ok(())
}

pub fn subject_has_removes<S: Subject>() -> bool {
    let n = S::name();
    n.starts_with("Orswot") || n.starts_with("Map") || n.starts_with("List")
}

// ------------------------------------------------------------------------------------------------
// C02: merge laws on reachable states

struct Operand<S: Subject> {
    st: S::St,
    know: Bits,
    merged: bool,
    noncausal: bool,
    name: String,
}

fn pool<S: Subject>(sim: &Sim<S>) -> Vec<Operand<S>> {
    let mut v = Vec::new();
    for (i, r) in sim.reps.iter().enumerate() {
        v.push(Operand { st: r.st.clone(), know: r.know, merged: r.merged, noncausal: r.noncausal, name: format!("state of r{i}") });
    }
    for (i, s) in sim.snaps.iter().enumerate() {
        v.push(Operand { st: s.st.clone(), know: s.know, merged: s.merged, noncausal: s.noncausal, name: format!("snapshot s{i}") });
    }
    v
}

fn merged<S: Subject>(a: &S::St, b: &S::St) -> S::St {
    let mut x = a.clone();
    S::merge(&mut x, b.clone());
    x
}

pub fn check_merge_laws<S: Subject>(plan: &Plan, ctx: &Ctx, stats: &mut Stats) -> Result<(), Fail> {
    let mut sim = new_sim::<S>(plan, &ctx.cfg, stats);
    let mut nontrivial_triple = false;
    for step in &plan.steps {
        let ev = sim.step(step);
        if let Event::Probe { a, b, c, .. } = ev {
            let p = pool(&sim);
            let (ia, ib, ic) = (idx(a, p.len()), idx(b, p.len()), idx(c, p.len()));
            let (x, y, z) = (&p[ia], &p[ib], &p[ic]);
            let know = x.know | y.know | z.know;
            let lin = Lineage { merged: true, noncausal: x.noncausal || y.noncausal || z.noncausal || !sim.closed(know) };
            let xy = merged::<S>(&x.st, &y.st);
            let yx = merged::<S>(&y.st, &x.st);
            let (oxy, oyx) = (S::observe(&xy), S::observe(&yx));
            stats.observations += 3 * oxy.len() as u64;
            let lin2 = Lineage { merged: true, noncausal: x.noncausal || y.noncausal || !sim.closed(x.know | y.know) };
            let d = diff_points(&oxy, &oyx);
            if let Err(f) = judge(&sim, stats, ctx, x.know | y.know, &lin2, &d, &format!("merge is not commutative: a+b vs b+a ('expected') for a={}, b={}", x.name, y.name), ia, &oxy, &oyx) {
                return Err(fail_with(&sim, stats, f));
            }
            let xy_z = merged::<S>(&xy, &z.st);
            let yz = merged::<S>(&y.st, &z.st);
            let x_yz = merged::<S>(&x.st, &yz);
            let (l, r) = (S::observe(&xy_z), S::observe(&x_yz));
            let d = diff_points(&l, &r);
            if let Err(f) = judge(&sim, stats, ctx, know, &lin, &d, &format!("merge is not associative: (a+b)+c vs a+(b+c) ('expected') for a={}, b={}, c={}", x.name, y.name, z.name), ia, &l, &r) {
                return Err(fail_with(&sim, stats, f));
            }
            let xx = merged::<S>(&x.st, &x.st);
            let (oxx, ox) = (S::observe(&xx), S::observe(&x.st));
            let d = diff_points(&oxx, &ox);
            let lin1 = Lineage { merged: true, noncausal: x.noncausal };
            if let Err(f) = judge(&sim, stats, ctx, x.know, &lin1, &d, &format!("merge is not idempotent: a+a vs a ('expected') for a={}", x.name), ia, &oxx, &ox) {
                return Err(fail_with(&sim, stats, f));
            }
            if sim.trace {
                sim.log.push(format!("probe: merge laws on a={}, b={}, c={}", x.name, y.name, z.name));
            }
            // non-trivial triple: knowledge sets pairwise different and not all disjoint, some merge not a no-op
            let ks = [x.know, y.know, z.know];
            let distinct = ks[0] != ks[1] && ks[1] != ks[2] && ks[0] != ks[2];
            let overlapping = (ks[0] & ks[1]) != 0 || (ks[1] & ks[2]) != 0 || (ks[0] & ks[2]) != 0;
            let noop = (ks[0] | ks[1] | ks[2]) == ks[0] && ks[0] == ks[1];
            let remote_rm = bits_iter(know).any(|o| match remove_ctx(&sim.metas[o].sem) {
                Some(c) => c.iter().any(|(a, n)| *n > 0 && Some(*a) != sim.metas[o].actor),
                None => false,
            });
            if distinct && overlapping && !noop && (remote_rm || !subject_has_removes::<S>()) {
                nontrivial_triple = true;
            }
        }
    }
    // gossip: move every state everywhere in a generated order, all must read the same
    let n = sim.reps.len();
    let mut states: Vec<S::St> = sim.reps.iter().map(|r| r.st.clone()).collect();
    let mut knows: Vec<Bits> = sim.reps.iter().map(|r| r.know).collect();
    let all = knows.iter().fold(0, |a, b| a | b);
    let mut guard = 0;
    let mut pi = 0usize;
    while knows.iter().any(|k| *k != all) && guard < 200 {
        guard += 1;
        let p1 = plan.settle[pi % plan.settle.len()];
        let p2 = plan.settle[(pi + 1) % plan.settle.len()].wrapping_add((guard as u16).wrapping_mul(7919));
        pi += 2;
        let (dst, src) = (idx(p1, n), idx(p2, n));
        if dst == src || knows[src] & !knows[dst] == 0 {
            // make progress deterministically
            let need: Vec<(usize, usize)> = (0..n).flat_map(|d| (0..n).map(move |s| (d, s))).filter(|(d, s)| d != s && knows[*s] & !knows[*d] != 0).collect();
            if need.is_empty() {
                break;
            }
            let (d, s) = need[idx(p1, need.len())];
            let src_st = states[s].clone();
            S::merge(&mut states[d], src_st);
            knows[d] |= knows[s];
        } else {
            let src_st = states[src].clone();
            S::merge(&mut states[dst], src_st);
            knows[dst] |= knows[src];
        }
    }
    if all != 0 {
        let o0 = S::observe(&states[0]);
        for r in 1..n {
            let o = S::observe(&states[r]);
            stats.observations += o.len() as u64;
            let d = diff_points(&o, &o0);
            let lin = Lineage { merged: true, noncausal: sim.reps.iter().any(|r| r.noncausal) };
            if let Err(f) = judge(&sim, stats, ctx, all, &lin, &d, &format!("after gossiping every state everywhere, r{r} reads differently from r0 ('expected')"), r, &o, &o0) {
                return Err(fail_with(&sim, stats, f));
            }
        }
    }
    classify_common(&sim, stats);
    if nontrivial_triple {
        stats.cur_nontrivial = true;
        stats.class("nontrivial");
    }
    finish(&sim, stats);
    Ok(())
}

// ------------------------------------------------------------------------------------------------
// C03: state merge and op delivery are interchangeable

pub fn check_hybrid<S: Subject>(plan: &Plan, ctx: &Ctx, stats: &mut Stats) -> Result<(), Fail> {
    let mut sim = new_sim::<S>(plan, &ctx.cfg, stats);
    let mut merged_overlap = false;
    let mut redelivery_after_merge = false;
    let mut compared_merged = false;
    for (si, step) in plan.steps.iter().enumerate() {
        let ev = sim.step(step);
        match &ev {
            Event::Merged { src_know, before_know, .. } => {
                if src_know & before_know != 0 && src_know & !before_know != 0 {
                    merged_overlap = true;
                }
            }
            Event::Delivered { r, dup, .. } => {
                if *dup && sim.reps[*r].merged {
                    redelivery_after_merge = true;
                }
            }
            _ => {}
        }
        let mut targets: Vec<(S::St, Bits, Lineage, String, usize)> = Vec::new();
        if let Some(r) = affected(&ev) {
            targets.push((sim.reps[r].st.clone(), sim.reps[r].know, lineage(&sim, r), format!("replica r{r}"), r));
        }
        if let Event::Probe { a, b, .. } = ev {
            let p = pool(&sim);
            let (ia, ib) = (idx(a, p.len()), idx(b, p.len()));
            let m = merged::<S>(&p[ia].st, &p[ib].st);
            let know = p[ia].know | p[ib].know;
            let lin = Lineage { merged: true, noncausal: p[ia].noncausal || p[ib].noncausal || !sim.closed(know) };
            if sim.trace {
                sim.log.push(format!("probe: merge({}, {}) vs ops-only twin", p[ia].name, p[ib].name));
            }
            targets.push((m, know, lin, format!("merge({}, {})", p[ia].name, p[ib].name), ia));
        }
        for (st, know, lin, name, r) in targets {
            if know == 0 {
                continue;
            }
            let respect = if sim.closed(know) {
                Disc::Causal
            } else if S::NEEDS == Disc::Any {
                Disc::Any
            } else {
                continue;
            };
            let mut picks = plan.settle.clone();
            picks.rotate_left(si % plan.settle.len().max(1));
            let (twin, order) = sim.replay_order(know, &picks, respect);
            let (got, want) = (S::observe(&st), S::observe(&twin));
            stats.observations += got.len() as u64;
            if lin.merged {
                compared_merged = true;
            }
            let d = diff_points(&got, &want);
            if let Err(f) = judge(&sim, stats, ctx, know, &lin, &d, &format!("{name} reads differently from a fresh replica that applied exactly the ops behind it, one by one, in order {order:?} ('expected')"), r, &got, &want) {
                return Err(fail_with(&sim, stats, f));
            }
        }
    }
    classify_common(&sim, stats);
    if merged_overlap {
        stats.class("merge of overlapping knowledge");
    }
    if redelivery_after_merge {
        stats.class("op delivery of an update already contained in a merged state");
    }
    if compared_merged && merged_overlap && (has_remote_observed_remove(&sim.metas) || !subject_has_removes::<S>()) {
        stats.cur_nontrivial = true;
        stats.class("nontrivial");
    }
    finish(&sim, stats);
    Ok(())
}

// ------------------------------------------------------------------------------------------------
// C08: per-actor order suffices; overtaking removes are deferred, never lost

pub fn check_overtake<S: Subject>(plan: &Plan, ctx: &Ctx, stats: &mut Stats) -> Result<(), Fail> {
    let mut sim = new_sim::<S>(plan, &ctx.cfg, stats);
    let n = sim.reps.len();
    let mut held_pending = vec![false; n];
    let mut resolved_by_op = false;
    let mut resolved_by_merge = false;
    let mut noncausal_seen = false;
    for (si, step) in plan.steps.iter().enumerate() {
        let ev = sim.step(step);
        if let Some(r) = affected(&ev) {
            let know = sim.reps[r].know;
            let pend = pending_remove(&sim, know);
            if held_pending[r] && !pend {
                match ev {
                    Event::Merged { .. } => resolved_by_merge = true,
                    Event::Delivered { .. } => resolved_by_op = true,
                    _ => {}
                }
            }
            held_pending[r] = pend;
            if !sim.closed(know) {
                noncausal_seen = true;
            }
            let got = S::observe(&sim.reps[r].st);
            // intermediate reads against the model (a pending remove must already hide what it
            // covers and nothing else)
            if let Some(want) = S::predict(&sim.metas, know) {
                stats.observations += want.len() as u64;
                let d = diff_on_model(&got, &want);
                if let Err(f) = judge(&sim, stats, ctx, know, &lineage(&sim, r), &d, "read under non-causal delivery differs from the specification", r, &got, &want) {
                    return Err(fail_with(&sim, stats, f));
                }
            }
            if sim.closed(know) && know != 0 {
                let mut picks = plan.settle.clone();
                picks.rotate_left(si % plan.settle.len().max(1));
                let (twin, order) = sim.replay_order(know, &picks, Disc::Causal);
                let want = S::observe(&twin);
                stats.observations += want.len() as u64;
                let d = diff_points(&got, &want);
                if let Err(f) = judge(&sim, stats, ctx, know, &lineage(&sim, r), &d, &format!("replica r{r} (ops delivered in per-actor order only) differs from causal delivery {order:?} of the same op set ('expected')"), r, &got, &want) {
                    return Err(fail_with(&sim, stats, f));
                }
            }
        }
    }
    // settle: deliver everything everywhere in a generated discipline-respecting order
    let all = sim.all_bits();
    let mut pi = 0usize;
    for r in 0..n {
        loop {
            let el: Vec<usize> = (0..sim.ops.len()).filter(|o| sim.eligible(r, *o, sim.disc)).collect();
            if el.is_empty() {
                break;
            }
            let pick = plan.settle[pi % plan.settle.len()];
            pi += 1;
            let op = if pick & 1 == 0 { *el.last().unwrap() } else { el[idx(pick, el.len())] };
            let was_pending = pending_remove(&sim, sim.reps[r].know);
            sim.deliver(r, op);
            if sim.trace {
                sim.log.push(format!("settle: r{r} <- op#{op}"));
            }
            if was_pending && !pending_remove(&sim, sim.reps[r].know) {
                resolved_by_op = true;
            }
        }
    }
    if all != 0 {
        let (twin, order) = sim.replay_order(all, &plan.settle, Disc::Causal);
        let want = S::observe(&twin);
        for r in 0..n {
            let got = S::observe(&sim.reps[r].st);
            stats.observations += got.len() as u64;
            let d = diff_points(&got, &want);
            if let Err(f) = judge(&sim, stats, ctx, all, &lineage(&sim, r), &d, &format!("after everything was delivered (per-actor order), r{r} differs from causal delivery {order:?} of all ops ('expected')"), r, &got, &want) {
                return Err(fail_with(&sim, stats, f));
            }
        }
    }
    classify_common(&sim, stats);
    if resolved_by_op {
        stats.class("pending remove resolved by a later op");
    }
    if resolved_by_merge {
        stats.class("pending remove resolved by a merge");
    }
    if noncausal_seen {
        stats.class("non-causal knowledge at some step");
    }
    let nt = if subject_has_removes::<S>() && S::name() != "List<u32,u8>" { resolved_by_op || resolved_by_merge } else { noncausal_seen && has_concurrent_same_elem(&sim.metas) };
    if nt {
        stats.cur_nontrivial = true;
        stats.class("nontrivial");
    }
    finish(&sim, stats);
    Ok(())
}

// ------------------------------------------------------------------------------------------------
// C09: duplicates and stale states are absorbed

pub fn check_absorb<S: Subject>(plan: &Plan, ctx: &Ctx, stats: &mut Stats, eq_exempt: &dyn Fn(&Sim<S>, Bits, &Lineage) -> Option<&'static str>) -> Result<(), Fail> {
    let mut sim = new_sim::<S>(plan, &ctx.cfg, stats);
    let mut bait = false;
    for step in &plan.steps {
        let ev = sim.step(step);
        let (r, before, what, carried): (usize, &S::St, String, Bits) = match &ev {
            Event::Delivered { r, op, before, before_know, .. } if has(*before_know, *op) => (*r, before, format!("re-delivery of op#{op}"), bit(*op)),
            Event::Merged { dst, src_know, before, before_know, .. } if src_know & !before_know == 0 => (*dst, before, "merge of a state whose updates were all known".to_string(), *src_know),
            _ => {
                // still check the model clause on every step (removed data never resurrects)
                if let Some(r) = affected(&ev) {
                    if let Some(want) = S::predict(&sim.metas, sim.reps[r].know) {
                        let got = S::observe(&sim.reps[r].st);
                        stats.observations += want.len() as u64;
                        let d = diff_on_model(&got, &want);
                        if let Err(f) = judge(&sim, stats, ctx, sim.reps[r].know, &lineage(&sim, r), &d, "read differs from the specification", r, &got, &want) {
                            return Err(fail_with(&sim, stats, f));
                        }
                    }
                }
                continue;
            }
        };
        let know = sim.reps[r].know;
        let lin = lineage(&sim, r);
        let (ob, oa) = (S::observe(before), S::observe(&sim.reps[r].st));
        stats.observations += oa.len() as u64 + 1;
        let d = diff_points(&oa, &ob);
        if let Err(f) = judge(&sim, stats, ctx, know, &lin, &d, &format!("{what} changed what r{r} reads ('expected' = before)"), r, &oa, &ob) {
            return Err(fail_with(&sim, stats, f));
        }
        // `==` of Map<_,MVReg> can panic (MVReg::eq asserts uniqueness; known class MAP-T5 produces duplicates): a panic
        // counts as "not equal" and is then judged by the same exemption as any other == failure
        let same = std::panic::catch_unwind(std::panic::AssertUnwindSafe(|| *before == sim.reps[r].st)).unwrap_or(false);
        if d.is_empty() && !same {
            let ex = if stats.strict { None } else { eq_exempt(&sim, know, &lin) };
            match ex {
                Some(c) => stats.exempt(c),
                None => {
                    let f = Fail::new(format!("{what} changed the state of r{r} (== with its own past fails) although reads are equal:\n   before {}\n   after  {}", crate::tree::to_tree(before), crate::tree::to_tree(&sim.reps[r].st)));
                    return Err(fail_with(&sim, stats, f));
                }
            }
        }
        // resurrection bait: the absorbed ops carry an add/update that a known remove covers,
        // or an old remove re-delivered after a newer add
        for o in bits_iter(carried) {
            let m = &sim.metas[o];
            if let Some(dot) = m.sem.dot() {
                if !m.sem.is_remove() && bits_iter(know).any(|q| matches!(remove_ctx(&sim.metas[q].sem), Some(c) if covers(c, dot)) || matches!(&sim.metas[q].sem, Sem::ListDel { .. })) {
                    bait = true;
                }
            }
            if m.sem.is_remove() && bits_iter(know).any(|q| q > o && !sim.metas[q].sem.is_remove() && sim.metas[q].sem.dot().is_some()) {
                bait = true;
            }
            if !subject_has_removes::<S>() && bits_iter(know).any(|q| q > o) {
                bait = true;
            }
        }
    }
    classify_common(&sim, stats);
    if bait {
        stats.cur_nontrivial = true;
        stats.class("nontrivial");
    }
    finish(&sim, stats);
    Ok(())
}

// ------------------------------------------------------------------------------------------------
pub type CheckFn = fn(&Plan, &Ctx, &mut Stats) -> Result<(), Fail>;

pub fn mk_job(label: impl Into<String>, q: u64, t: u64, pc: PlanCfg, ctx: Ctx, f: CheckFn) -> PJob<Plan> {
    let pc2 = pc.clone();
    job(label, q, t, move || plan_strategy(&pc), move |p: &Plan, st: &mut Stats| f(p, &ctx, st)).decoder({ let pc = pc2.clone(); move |d: &[u8]| decode_plan(&pc, d) }).encoder(move |t: &Plan| encode_plan(&pc2, t))
}
