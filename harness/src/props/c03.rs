//! C03 — state merge and op delivery are interchangeable.
use super::exempt::Class;
use super::generic::*;
use crate::engine::*;
use crate::plan::*;
use crate::sim::*;
use crate::subject::{lists::*, map::*, merkle::*, mvreg::*, orswot::*, simple::*};

fn add<S: Subject>(jobs: &mut Vec<Box<dyn JobT>>, disc: Disc, q: u64, t: u64, ex: &[Class], floor: f64) {
    let pc = PlanCfg::new(Weights::mixed().with_probe(10).with_redeliver(10)).steps(6, 28).editors(2, 4);
    let pc = pc.long_share(S::LONG);
    let ctx = if disc == Disc::Fifo { Ctx::new(disc).ex(ex).newest() } else { Ctx::new(disc).ex(ex) };
    jobs.push(mk_job(format!("{}/{:?}/ops+merges", S::name(), disc), q, t, pc, ctx, check_hybrid::<S>).floor("nontrivial", floor).boxed());
}

pub fn property() -> Property {
    let mut jobs: Vec<Box<dyn JobT>> = Vec::new();
    add::<SOrswot>(&mut jobs, Disc::Causal, 18000, 200_000, &[], 0.03);
    add::<SOrswotBig>(&mut jobs, Disc::Causal, 4500, 50000, &[], 0.015);
    add::<SMVReg>(&mut jobs, Disc::Causal, 12000, 100_000, &[], 0.03);
    add::<SMVReg>(&mut jobs, Disc::Any, 12000, 100_000, &[], 0.03);
    add::<MapOrswot>(&mut jobs, Disc::Causal, 18000, 200_000, &[Class::T1], 0.03);
    add::<MapOrswotBig>(&mut jobs, Disc::Causal, 4500, 50000, &[Class::T1], 0.015);
    add::<MapMapOrswot>(&mut jobs, Disc::Causal, 12000, 100_000, &[Class::T1], 0.03);
    add::<MapMVReg>(&mut jobs, Disc::Causal, 18000, 200_000, &[Class::T1, Class::T2, Class::T5], 0.03);
    add::<MapMVRegBig>(&mut jobs, Disc::Causal, 4500, 50000, &[Class::T1, Class::T2, Class::T5], 0.015);
    add::<MapMapMVReg>(&mut jobs, Disc::Causal, 12000, 100_000, &[Class::T1, Class::T2, Class::T5], 0.03);
    // operands that are NOT causally closed (they hold pending removes); the comparison with the ops-only
    // twin is made whenever the merged / resulting knowledge is causally closed
    add::<SOrswot>(&mut jobs, Disc::Fifo, 18000, 200_000, &[], 0.02);
    add::<SOrswotBig>(&mut jobs, Disc::Fifo, 4500, 50000, &[], 0.01);
    add::<MapOrswot>(&mut jobs, Disc::Fifo, 18000, 200_000, &[Class::T1, Class::T3], 0.02);
    add::<MapOrswotBig>(&mut jobs, Disc::Fifo, 4500, 50000, &[Class::T1, Class::T3], 0.01);
    add::<MapMVReg>(&mut jobs, Disc::Fifo, 18000, 200_000, &[Class::T1, Class::T2, Class::T2b, Class::T3, Class::T5, Class::T6], 0.02);
    add::<MapMVRegBig>(&mut jobs, Disc::Fifo, 4500, 50000, &[Class::T1, Class::T2, Class::T2b, Class::T3, Class::T5, Class::T6], 0.01);
    add::<SGList>(&mut jobs, Disc::Any, 9000, 60_000, &[], 0.03);
    add::<SMerkle>(&mut jobs, Disc::Any, 9000, 60_000, &[], 0.03);
    add::<SGCounter>(&mut jobs, Disc::Any, 6000, 40_000, &[], 0.03);
    add::<SPNCounter>(&mut jobs, Disc::Any, 6000, 40_000, &[], 0.03);
    add::<SGSet>(&mut jobs, Disc::Any, 6000, 40_000, &[], 0.03);
    add::<SLww>(&mut jobs, Disc::Any, 6000, 40_000, &[], 0.03);
    add::<SMax>(&mut jobs, Disc::Any, 6000, 40_000, &[], 0.03);
    add::<SMin>(&mut jobs, Disc::Any, 6000, 40_000, &[], 0.03);
    Property {
        id: "C03",
        rule: "Plans mixing API edits, op deliveries, duplicates, merges and stale-snapshot merges freely; after every step the affected replica (and, at Probe steps, merge(state r1, state r2) for a generated pair of states/snapshots) is compared on all reads and contexts with an ops-only twin: a fresh replica fed exactly the ops of the knowledge set one by one in a generated causal order (any order for the order-free types). Non-trivial = a compared state produced by a merge of overlapping, mutually incomplete knowledge sets, in a history with (for types with removes) a remove that observed a remote update; distinct = distinct Plan hash.".into(),
        assumptions: vec!["compared states have causally closed knowledge for Orswot/Map/MVReg (operands may hold pending removes in the Fifo jobs); arbitrary knowledge for the order-free types".into(), "Map: mismatches at keys where MAP-T1 (merge lineage) or MAP-T2 (MVReg leaves) triggers hold are exempted per key and counted".into()],
        jobs,
    }
}
