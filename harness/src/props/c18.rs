//! C18 — reset_remove forgets exactly what the given clock covers.
use super::common::*;
use super::generic::*;
use crate::engine::*;
use crate::plan::*;
use crate::sim::*;
use crate::subject::{map::*, mvreg::*, orswot::*, simple::*};
use crate::tree::to_tree;
use serde_json::{json, Map as JMap, Value};

#[derive(Clone, Debug)]
pub enum TShape {
    Clock,
    Pn,
    Reg,
    Set,
    MapOf(Box<TShape>),
}

fn rr_clock(v: &Value, c: &Clock) -> Value {
    let mut m = JMap::new();
    if let Value::Object(o) = v {
        for (a, n) in o {
            let actor: u8 = a.parse().unwrap();
            let n = n.as_u64().unwrap();
            if n > c.get(&actor).copied().unwrap_or(0) {
                m.insert(a.clone(), json!(n));
            }
        }
    }
    Value::Object(m)
}
fn empty(v: &Value) -> bool {
    v.as_object().map(|o| o.is_empty()).unwrap_or(true)
}

/// pointwise model of reset_remove on a pending-remove table: every pending remove keeps the part of its context the clock
/// does not cover; one whose context is covered entirely is forgotten; removes whose remaining contexts coincide are united
/// (deterministic since the fix: commit 92476d5; before it the winner depended on hash order, DESIGN 2.8)
fn rr_deferred(d: &Value, c: &Clock) -> Value {
    let mut out: std::collections::BTreeMap<String, Vec<Value>> = Default::default();
    if let Value::Object(o) = d {
        for (k, members) in o {
            let kv: Value = serde_json::from_str(k).expect("a pending-remove key is a serialised clock");
            // a VClock serialises as its dot map (or, should that ever change, as {"dots": map}): keep the shape
            let wrapped = kv.get("dots").is_some();
            let dots = rr_clock(if wrapped { &kv["dots"] } else { &kv }, c);
            if empty(&dots) {
                continue;
            }
            let e = out.entry(if wrapped { json!({ "dots": dots }).to_string() } else { dots.to_string() }).or_default();
            for m in members.as_array().map(|a| a.as_slice()).unwrap_or(&[]) {
                if !e.contains(m) {
                    e.push(m.clone());
                }
            }
        }
    }
    let mut m = JMap::new();
    for (k, mut v) in out {
        v.sort_by_key(|e| e.to_string());
        m.insert(k, Value::Array(v));
    }
    Value::Object(m)
}

/// all pending-remove contexts in a tree, at any depth
fn deferred_contexts(v: &Value, out: &mut Vec<Clock>) {
    match v {
        Value::Object(o) => {
            for (k, x) in o {
                if k == "deferred" {
                    if let Value::Object(d) = x {
                        for key in d.keys() {
                            if let Ok(kv) = serde_json::from_str::<Value>(key) {
                                let mut c = Clock::new();
                                let dv = if kv.get("dots").is_some() { &kv["dots"] } else { &kv };
                                if let Some(dots) = dv.as_object() {
                                    for (a, n) in dots {
                                        c.insert(a.parse().unwrap(), n.as_u64().unwrap());
                                    }
                                }
                                out.push(c);
                            }
                        }
                    }
                } else {
                    deferred_contexts(x, out);
                }
            }
        }
        Value::Array(a) => a.iter().for_each(|x| deferred_contexts(x, out)),
        _ => {}
    }
}

/// pointwise model of reset_remove on the serde tree, pending-remove tables included
pub fn rr_tree(shape: &TShape, v: &Value, c: &Clock) -> Value {
    match shape {
        TShape::Clock => rr_clock(v, c),
        TShape::Pn => json!({"p": rr_clock(&v["p"], c), "n": rr_clock(&v["n"], c)}),
        TShape::Reg => Value::Array(
            v.as_array()
                .unwrap()
                .iter()
                .filter_map(|e| {
                    let k = rr_clock(&e[0], c);
                    if empty(&k) {
                        None
                    } else {
                        Some(json!([k, e[1]]))
                    }
                })
                .collect(),
        ),
        TShape::Set => {
            let mut ents = JMap::new();
            for (m, w) in v["entries"].as_object().unwrap() {
                let k = rr_clock(w, c);
                if !empty(&k) {
                    ents.insert(m.clone(), k);
                }
            }
            json!({"clock": rr_clock(&v["clock"], c), "entries": ents, "deferred": rr_deferred(&v["deferred"], c)})
        }
        TShape::MapOf(inner) => {
            let mut ents = JMap::new();
            for (k, e) in v["entries"].as_object().unwrap() {
                let kc = rr_clock(&e["clock"], c);
                if !empty(&kc) {
                    ents.insert(k.clone(), json!({"clock": kc, "val": rr_tree(inner, &e["val"], c)}));
                }
            }
            json!({"clock": rr_clock(&v["clock"], c), "entries": ents, "deferred": rr_deferred(&v["deferred"], c)})
        }
    }
}

pub fn strip_deferred(v: &Value) -> Value {
    match v {
        Value::Object(o) => Value::Object(o.iter().filter(|(k, _)| *k != "deferred").map(|(k, x)| (k.clone(), strip_deferred(x))).collect()),
        Value::Array(a) => Value::Array(a.iter().map(strip_deferred).collect()),
        x => x.clone(),
    }
}

/// all clocks appearing in a tree (witnesses)
fn all_clock_entries(shape: &TShape, v: &Value, out: &mut Vec<Value>) {
    match shape {
        TShape::Clock => out.push(v.clone()),
        TShape::Pn => {
            out.push(v["p"].clone());
            out.push(v["n"].clone());
        }
        TShape::Reg => {
            for e in v.as_array().unwrap() {
                out.push(e[0].clone());
            }
        }
        TShape::Set => {
            for (_, w) in v["entries"].as_object().unwrap() {
                out.push(w.clone());
            }
        }
        TShape::MapOf(inner) => {
            for (_, e) in v["entries"].as_object().unwrap() {
                out.push(e["clock"].clone());
                all_clock_entries(inner, &e["val"], out);
            }
        }
    }
}

fn state_clock(shape: &TShape, v: &Value) -> Clock {
    let mut c = Clock::new();
    let mut cs = Vec::new();
    all_clock_entries(shape, v, &mut cs);
    if let TShape::Set | TShape::MapOf(_) = shape {
        cs.push(v["clock"].clone());
    }
    for x in cs {
        if let Value::Object(o) = x {
            for (a, n) in o {
                join_dot(&mut c, (a.parse().unwrap(), n.as_u64().unwrap()));
            }
        }
    }
    c
}

/// a clock generated relative to the state's clock
fn relative_clock(sc: &Clock, a: u16, b: u16, c: u16) -> (Clock, &'static str) {
    let mut out = Clock::new();
    let mode = match idx(a, 12) {
        0 => 0,
        1 => 1,
        2 => 2,
        3..=8 => 3,
        9 => 5,
        _ => 6,
    };
    let mut bits = b as u32 | ((c as u32) << 16);
    let mut next = |n: u32| -> u32 {
        let v = bits % n;
        bits = bits.rotate_right(3) ^ 0x9E37;
        v
    };
    let name = match mode {
        0 => {
            for (x, n) in sc {
                // uniformly below n for small n; for huge counters: n, n-1 or something small
                let v = if *n >= u32::MAX as u64 {
                    match next(3) {
                        0 => *n,
                        1 => *n - 1,
                        _ => next(1000) as u64,
                    }
                } else {
                    next(*n as u32 + 1) as u64
                };
                if v > 0 {
                    out.insert(*x, v);
                }
            }
            "below"
        }
        1 => {
            out = sc.clone();
            "equal"
        }
        2 => {
            for (x, n) in sc {
                out.insert(*x, n.saturating_add(next(2) as u64));
            }
            out.insert(77, 1);
            "above"
        }
        3 | 4 => {
            for (x, n) in sc {
                let v = match next(4) {
                    0 => 0,
                    1 => n.saturating_sub(1),
                    2 => *n,
                    _ => n.saturating_add(1),
                };
                if v > 0 {
                    out.insert(*x, v);
                }
            }
            if next(2) == 0 {
                out.insert(78, 2);
            }
            "concurrent/mixed"
        }
        5 => "empty",
        _ => {
            if !sc.is_empty() {
                let k = next(sc.len() as u32) as usize;
                let (x, n) = sc.iter().nth(k).unwrap();
                out.insert(*x, (*n).saturating_sub(next(2) as u64).max(1));
            }
            "single-actor slice"
        }
    };
    (out, name)
}

fn reads_empty(o: &Obs) -> bool {
    for (k, v) in o {
        let ok = match k.as_str() {
            "clock" => empty(v),
            "members" | "keys" | "vals" => v.as_array().map(|a| a.is_empty()).unwrap_or(false),
            "value" => v == "0",
            "state" | "api" => true,
            _ if k.starts_with("member:") || k.starts_with("key:") => v["present"] == false,
            _ => true,
        };
        if !ok {
            return false;
        }
    }
    true
}

fn check_reset<S: Subject>(plan: &Plan, ctx: &Ctx, stats: &mut Stats, shape: &TShape) -> Result<(), Fail> {
    let mut sim = new_sim::<S>(plan, &ctx.cfg, stats);
    let mut nontrivial = false;
    for step in &plan.steps {
        let ev = sim.step(step);
        let Event::Probe { a, b, c, d } = ev else { continue };
        let r = idx(d, sim.reps.len());
        let st = &sim.reps[r].st;
        let tree = to_tree(st);
        let sc = state_clock(shape, &tree);
        let (mut clk, mut mode) = relative_clock(&sc, a, b, c);
        // a quarter of the probes at a state that holds pending removes aim at them: the clock covers one pending remove's
        // context entirely (alone -- possibly naming only actors the state's own clock has never seen -- or joined with the
        // relative clock), or all but one of its dots
        let mut pend = Vec::new();
        deferred_contexts(&tree, &mut pend);
        if !pend.is_empty() {
            stats.class("probed state holds a pending remove");
            if b % 4 == 0 {
                let p = pend[idx(c, pend.len())].clone();
                match (b / 4) % 3 {
                    0 => {
                        clk = p;
                        mode = "exactly one pending remove's context";
                    }
                    1 => {
                        join(&mut clk, &p);
                        mode = "relative clock joined with one pending remove's context";
                    }
                    _ => {
                        let mut q = p.clone();
                        if let Some(first) = p.keys().next().copied() {
                            let n = q[&first];
                            if n > 1 {
                                q.insert(first, n - 1);
                            } else {
                                q.remove(&first);
                            }
                        }
                        clk = q;
                        mode = "one pending remove's context minus one dot";
                    }
                }
                stats.class("reset_remove clock aimed at a pending remove");
            }
        }
        let mut after = st.clone();
        S::reset_remove(&mut after, &clk);
        let got = to_tree(&after);
        let want = rr_tree(shape, &tree, &clk);
        stats.observations += 1;
        if sim.trace {
            sim.log.push(format!("probe: r{r}.reset_remove({clk:?}) [{mode} relative to state clock {sc:?}]"));
        }
        if got != want {
            let f = Fail::new(format!("r{r}: reset_remove({clk:?}) [{mode}] on {tree}\n   gives    {got}\n   expected {want} (keep exactly the witness entries strictly newer than the clock; drop emptied elements)"));
            return Err(fail_with(&sim, stats, f));
        }
        // laws
        let mut e = st.clone();
        S::reset_remove(&mut e, &Clock::new());
        if to_tree(&e) != to_tree(st) {
            return Err(fail_with(&sim, stats, Fail::new(format!("r{r}: reset_remove(empty clock) changed the state"))));
        }
        let mut own = st.clone();
        S::reset_remove(&mut own, &sc);
        if !reads_empty(&S::observe(&own)) {
            return Err(fail_with(&sim, stats, Fail::new(format!("r{r}: reset_remove(own full clock {sc:?}) leaves reads non-empty: {}", obs_json(&S::observe(&own))))));
        }
        let (clk2, _) = relative_clock(&sc, a.wrapping_mul(31).wrapping_add(7), c, b);
        let mut s12 = st.clone();
        S::reset_remove(&mut s12, &clk);
        S::reset_remove(&mut s12, &clk2);
        let mut j = clk.clone();
        join(&mut j, &clk2);
        let mut sj = st.clone();
        S::reset_remove(&mut sj, &j);
        if to_tree(&s12) != to_tree(&sj) || S::observe(&s12) != S::observe(&sj) {
            return Err(fail_with(&sim, stats, Fail::new(format!("r{r}: reset_remove({clk:?}) then ({clk2:?}) differs from reset_remove of their join {j:?}"))));
        }
        let mut twice = after.clone();
        S::reset_remove(&mut twice, &clk);
        if to_tree(&twice) != to_tree(&after) {
            return Err(fail_with(&sim, stats, Fail::new(format!("r{r}: repeating reset_remove({clk:?}) is not a no-op"))));
        }
        // non-trivial: c concurrent with the state clock and covers some but not all witnesses of an element
        let conc = !leq(&clk, &sc) && !leq(&sc, &clk);
        let mut cs = Vec::new();
        all_clock_entries(shape, &tree, &mut cs);
        let partial = cs.iter().any(|w| {
            let k = rr_clock(w, &clk);
            !empty(&k) && k != *w
        });
        if conc && partial {
            nontrivial = true;
        }
    }
    classify_common(&sim, stats);
    if nontrivial {
        stats.cur_nontrivial = true;
        stats.class("nontrivial");
    }
    finish(&sim, stats);
    Ok(())
}

fn add<S: Subject>(jobs: &mut Vec<Box<dyn JobT>>, shape: TShape, q: u64, t: u64, floor: f64) {
    let pc = PlanCfg::new(Weights::mixed().with_probe(30)).steps(8, 30).editors(2, 4);
    let pc = pc.long_share(S::LONG);
    let ctx = Ctx::new(S::NEEDS).newest();
    let label = format!("{}/{:?}/reachable states x relative clocks", S::name(), S::NEEDS);
    jobs.push(job(label, q, t, { let pc = pc.clone(); move || plan_strategy(&pc) }, move |p: &Plan, st: &mut Stats| check_reset::<S>(p, &ctx, st, &shape)).decoder({ let pc = pc.clone(); move |d: &[u8]| decode_plan(&pc, d) })
            .encoder({ let pc = pc.clone(); move |t: &Plan| encode_plan(&pc, t) })
            .floor("nontrivial", floor).boxed());
}

pub fn property() -> Property {
    let mut jobs: Vec<Box<dyn JobT>> = Vec::new();
    add::<SOrswot>(&mut jobs, TShape::Set, 24000, 250_000, 0.02);
    add::<SOrswotBig>(&mut jobs, TShape::Set, 6000, 62500, 0.01);
    add::<SMVReg>(&mut jobs, TShape::Reg, 24000, 250_000, 0.02);
    add::<MapOrswot>(&mut jobs, TShape::MapOf(Box::new(TShape::Set)), 24000, 250_000, 0.02);
    add::<MapOrswotBig>(&mut jobs, TShape::MapOf(Box::new(TShape::Set)), 6000, 62500, 0.01);
    add::<MapMVReg>(&mut jobs, TShape::MapOf(Box::new(TShape::Reg)), 24000, 250_000, 0.02);
    add::<MapMVRegBig>(&mut jobs, TShape::MapOf(Box::new(TShape::Reg)), 6000, 62500, 0.01);
    add::<MapMapMVReg>(&mut jobs, TShape::MapOf(Box::new(TShape::MapOf(Box::new(TShape::Reg)))), 16000, 100_000, 0.02);
    add::<SVClock>(&mut jobs, TShape::Clock, 12000, 100_000, 0.02);
    add::<SGCounter>(&mut jobs, TShape::Clock, 12000, 100_000, 0.02);
    add::<SPNCounter>(&mut jobs, TShape::Pn, 12000, 100_000, 0.02);
    Property {
        id: "C18",
        rule: "Reachable states of VClock, GCounter, PNCounter, MVReg, Orswot, Map<u8,Orswot>, Map<u8,MVReg>, Map<u8,Map<u8,MVReg>> (histories with merges and, for Orswot/Map, per-actor delivery so pending removes exist) x clocks generated RELATIVE to the state's clock (below, equal, above, concurrent/mixed incl. foreign actors, empty, single-actor slice) and, where the probed state holds pending removes, clocks aimed at them (exactly one pending remove's context, that context joined with a relative clock, the context minus one dot), at Probe steps. Oracle: the state tree after reset_remove(c) equals the pointwise model (every witness clock keeps exactly the entries strictly newer than c; emptied members/keys/values dropped; nested values reset recursively; top clock reset; every pending remove keeps the part of its context c does not cover, is forgotten when nothing is left, and is united with another whose remaining context coincides), plus the laws rr(empty)=identity (==), rr(own full clock) leaves all reads empty, rr(c1);rr(c2) == rr(c1 join c2), rr(c);rr(c) == rr(c). Non-trivial = c is concurrent with the state's clock and covers some but not all entries of >=1 witness; distinct = distinct Plan hash.".into(),
        assumptions: vec!["the pending-remove (deferred) tables are not compared after a reset: two pending clocks can collapse into one key with an iteration-order dependent winner (DESIGN 2.8)".into()],
        jobs,
    }
}
