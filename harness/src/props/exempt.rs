//! Known-finding classes: trigger predicates evaluated on the MODEL's view of the history (knowledge
//! set + op semantics), never on the implementation's output.  A mismatch at an observation point is
//! tolerated (and counted) only if a trigger of an enabled class holds for that point.
use crate::model::dotstore::{Payload, Store};
use crate::sim::*;

#[derive(Clone, Copy, PartialEq, Eq, Debug)]
pub enum Class {
    /// MAP-T1: one actor updates a key before and after a key remove that covers only the first
    /// update; wrong after a *merge* (entry clocks keep one counter per actor)
    T1,
    /// MAP-T2: Map<..MVReg>: a key remove covers a write's dot but not its whole context
    T2,
    /// MAP-T2b: Map<..MVReg>: a key remove strips its context dots from surviving values that had observed
    /// the removed writes; under non-causal delivery a later-arriving dominated write then reappears
    T2b,
    /// MAP-T3: non-causal only: a parked nested remove is dropped together with its entry by a key remove
    T3,
    /// MAP-T4: Map<..Orswot>: a nested remove applied after a concurrent key remove is parked forever in
    /// the nested set's pending table (affects == and residue only, never reads)
    T4,
    /// MAP-T5: Map<..MVReg>, merged lineage: merge strips foreign dots from stored value contexts, so a
    /// superseded write can reappear next to its successor
    T5,
    /// MAP-T6: non-causal only: a nested write made at a replica whose knowledge was not causally closed
    T6,
}

impl Class {
    pub fn name(self) -> &'static str {
        match self {
            Class::T1 => "MAP-T1",
            Class::T2 => "MAP-T2",
            Class::T2b => "MAP-T2b",
            Class::T3 => "MAP-T3",
            Class::T4 => "MAP-T4",
            Class::T5 => "MAP-T5",
            Class::T6 => "MAP-T6",
        }
    }
}

pub struct Lineage {
    pub merged: bool,
    pub noncausal: bool,
}

fn under(l_path: &[u8], k: u8) -> bool {
    !l_path.is_empty() && l_path[0] == k
}

pub fn t1(ds: &Store, k: u8, lin: &Lineage) -> bool {
    if !lin.merged {
        return false;
    }
    for r in ds.rems.iter().filter(|r| !r.member_level) {
        for l1 in ds.leaves.iter().filter(|l| under(&l.path, k)) {
            if !(Store::targets(r, l1) && covers(&r.ctx, l1.dot)) {
                continue;
            }
            for l2 in ds.leaves.iter().filter(|l| under(&l.path, k)) {
                if l2.dot.0 == l1.dot.0 && l2.dot.1 > l1.dot.1 && Store::targets(r, l2) && !covers(&r.ctx, l2.dot) {
                    return true;
                }
            }
        }
    }
    false
}

pub fn t2(ds: &Store, k: u8) -> bool {
    for l in ds.leaves.iter().filter(|l| under(&l.path, k)) {
        if let Payload::Val { ctx, .. } = &l.payload {
            for r in ds.rems.iter().filter(|r| !r.member_level) {
                if Store::targets(r, l) && covers(&r.ctx, l.dot) && !leq(ctx, &r.ctx) {
                    return true;
                }
            }
        }
    }
    false
}

pub fn t2b(ds: &Store, k: u8) -> bool {
    for l in ds.leaves.iter().filter(|l| under(&l.path, k)) {
        if let Payload::Val { ctx, .. } = &l.payload {
            for r in ds.rems.iter().filter(|r| !r.member_level) {
                if Store::targets(r, l) && !covers(&r.ctx, l.dot) && ctx.iter().any(|(x, n)| *n > 0 && r.ctx.get(x).copied().unwrap_or(0) >= *n) {
                    return true;
                }
            }
        }
    }
    false
}

pub fn t3(ds: &Store, k: u8, lin: &Lineage) -> bool {
    if !lin.noncausal {
        return false;
    }
    for rn in ds.rems.iter().filter(|r| !r.path.is_empty() && r.path[0] == k) {
        let Some(carrier) = rn.carrier else { continue };
        for rk in ds.rems.iter().filter(|r| !r.member_level && r.path.len() < rn.path.len()) {
            // rk removes the entry that holds the parked remove
            let holds = rn.path[..rk.path.len()] == rk.path[..] && rk.targets.contains(&rn.path[rk.path.len()]) && covers(&rk.ctx, carrier);
            if !holds {
                continue;
            }
            for a in ds.leaves.iter() {
                if Store::targets(rn, a) && covers(&rn.ctx, a.dot) && !covers(&rk.ctx, a.dot) {
                    return true;
                }
            }
        }
    }
    false
}

/// nested remove `rn` (carried by an update dot) and a key remove `rk` of an enclosing key that does
/// not cover the carrier but covers something `rn` removes: depending on arrival order `rn` is
/// applied or parked forever
pub fn t4(ds: &Store, k: u8) -> bool {
    for rn in ds.rems.iter().filter(|r| !r.path.is_empty() && r.path[0] == k) {
        let Some(carrier) = rn.carrier else { continue };
        for rk in ds.rems.iter().filter(|r| !r.member_level && r.path.len() < rn.path.len()) {
            let encloses = rn.path[..rk.path.len()] == rk.path[..] && rk.targets.contains(&rn.path[rk.path.len()]);
            if encloses && !covers(&rk.ctx, carrier) && !rn.ctx.is_empty() && rn.ctx.iter().any(|(a, n)| covers(&rk.ctx, (*a, *n))) {
                return true;
            }
        }
    }
    false
}

pub fn t5(ds: &Store, k: u8, lin: &Lineage) -> bool {
    if !lin.merged {
        return false;
    }
    // any write under k whose context mentions a foreign actor: a merge may strip that entry from
    // the stored context, after which copies / predecessors of the write no longer compare
    ds.leaves.iter().filter(|l| under(&l.path, k)).any(|w| matches!(&w.payload, Payload::Val { ctx, .. } if ctx.iter().any(|(x, n)| *n > 0 && *x != w.dot.0)))
}

/// the difference between observed and expected is only *extra register values* that were really
/// written under this key (zombies / duplicates), everything else (presence, witness, keys, members) equal
pub fn extras_only(got: &serde_json::Value, want: &serde_json::Value, allowed: &[u16]) -> bool {
    use serde_json::Value as V;
    match (got, want) {
        (V::Array(g), V::Array(w)) => {
            let mut rest: Vec<&V> = g.iter().collect();
            for x in w {
                match rest.iter().position(|y| *y == x) {
                    Some(i) => {
                        rest.remove(i);
                    }
                    None => return false,
                }
            }
            rest.iter().all(|y| y.as_u64().map(|v| allowed.contains(&(v as u16))).unwrap_or(false))
        }
        (V::Object(g), V::Object(w)) => g.len() == w.len() && g.iter().all(|(k, gv)| w.get(k).map(|wv| extras_only(gv, wv, allowed)).unwrap_or(false)),
        (a, b) => a == b,
    }
}

/// the observed value contains everything expected plus, possibly, resurrected members / keys / values
/// (structural superset); presence and witness must be equal
pub fn superset_only(got: &serde_json::Value, want: &serde_json::Value) -> bool {
    use serde_json::Value as V;
    match (got, want) {
        (V::Array(g), V::Array(w)) => {
            let mut rest: Vec<&V> = g.iter().collect();
            for x in w {
                match rest.iter().position(|y| *y == x) {
                    Some(i) => {
                        rest.remove(i);
                    }
                    None => return false,
                }
            }
            true
        }
        (V::Object(g), V::Object(w)) => w.iter().all(|(k, wv)| g.get(k).map(|gv| superset_only(gv, wv)).unwrap_or(false)),
        (a, b) => a == b,
    }
}

fn resurrection_only(g: &serde_json::Value, m: &serde_json::Value) -> bool {
    g["present"] == m["present"] && g["witness"] == m["witness"] && superset_only(&g["val"], &m["val"])
}

fn written_under(ds: &Store, k: u8) -> Vec<u16> {
    ds.leaves.iter().filter(|l| under(&l.path, k)).filter_map(|l| if let Payload::Val { v, .. } = &l.payload { Some(*v) } else { None }).collect()
}

pub fn t6(ds: &Store, k: u8, _lin: &Lineage, metas: &[OpMeta], closed: &dyn Fn(Bits) -> bool) -> bool {
    ds.leaves.iter().any(|l| under(&l.path, k) && matches!(l.payload, Payload::Val { .. }) && !closed(metas[l.op].deps))
}

/// Is a mismatch at `points` of a state with knowledge `know` explained by an enabled class?
/// Points "key:<k>" are judged per key; "keys" is derived from them; anything else is never exempt.
/// T2/T5/T6 (zombie register values) only tolerate *extra written values*; T1/T3 tolerate any
/// difference at the key.
pub fn explain<S: Subject>(sim: &Sim<S>, know: Bits, lin: &Lineage, points: &[String], got: &Obs, want: &Obs, pred: Option<&Obs>, enabled: &[Class]) -> Option<&'static str> {
    if enabled.is_empty() || points.is_empty() {
        return None;
    }
    let ds = Store::build(&sim.metas, know);
    let mut found: Option<&'static str> = None;
    let mut any_key = false;
    for p in points {
        if let Some(k) = p.strip_prefix("key:") {
            any_key = true;
            let k: u8 = k.parse().ok()?;
            let mut ok = None;
            for c in enabled {
                if !crate::engine::class_enabled(c.name()) {
                    continue;
                }
                let hit = match c {
                    Class::T1 => t1(&ds, k, lin),
                    Class::T2 => t2(&ds, k),
                    Class::T2b => t2b(&ds, k),
                    Class::T3 => t3(&ds, k, lin),
                    Class::T4 => false,
                    Class::T5 => t5(&ds, k, lin),
                    Class::T6 => t6(&ds, k, lin, &sim.metas, &|b| sim.closed(b)),
                };
                if !hit {
                    continue;
                }
                let tolerated = match c {
                    // resurrection classes: both sides may differ from the specification only by EXTRA
                    // members / keys / values; presence and witness of the key must match
                    Class::T1 | Class::T3 => match (got.get(p), want.get(p), pred.and_then(|m| m.get(p))) {
                        (Some(g), Some(w), Some(m)) => resurrection_only(g, m) && resurrection_only(w, m),
                        _ => false,
                    },
                    Class::T4 => true,
                    // both sides may differ from the specification only by extra written values
                    Class::T2 | Class::T2b | Class::T5 | Class::T6 => match (got.get(p), want.get(p), pred.and_then(|m| m.get(p))) {
                        (Some(g), Some(w), Some(m)) => {
                            let allowed = written_under(&ds, k);
                            extras_only(g, m, &allowed) && extras_only(w, m, &allowed)
                        }
                        _ => false,
                    },
                };
                if tolerated {
                    ok = Some(c.name());
                    break;
                }
            }
            match ok {
                Some(n) => found = Some(n),
                None => return None,
            }
        } else if p == "keys" {
            continue;
        } else {
            return None;
        }
    }
    if any_key {
        found
    } else {
        None
    }
}

/// Is a failure of `==` (with equal reads) on a state with knowledge `know` explained by an enabled class?
/// `==` is a whole-state relation, so the triggers are evaluated for every key.
pub fn explain_eq<S: Subject>(sim: &Sim<S>, know: Bits, lin: &Lineage, enabled: &[Class]) -> Option<&'static str> {
    if enabled.is_empty() {
        return None;
    }
    let ds = Store::build(&sim.metas, know);
    let mut keys: Vec<u8> = ds.leaves.iter().filter_map(|l| l.path.first().copied()).collect();
    keys.sort();
    keys.dedup();
    for k in keys {
        for c in enabled {
            if !crate::engine::class_enabled(c.name()) {
                continue;
            }
            let hit = match c {
                Class::T1 => t1(&ds, k, lin),
                Class::T2 => t2(&ds, k),
                Class::T2b => t2b(&ds, k),
                Class::T3 => t3(&ds, k, lin),
                Class::T4 => t4(&ds, k),
                Class::T5 => t5(&ds, k, lin),
                Class::T6 => t6(&ds, k, lin, &sim.metas, &|b| sim.closed(b)),
            };
            if hit {
                return Some(c.name());
            }
        }
    }
    None
}
