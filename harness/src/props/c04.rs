//! C04 — Orswot is an observed-remove, add-wins set.
use super::generic::*;
use crate::engine::*;
use crate::plan::*;
use crate::sim::*;
use crate::subject::orswot::{SOrswot, SOrswotBig};

/// add-wins situation present and known to some replica
pub fn add_wins_situation<S: Subject>(sim: &Sim<S>) -> bool {
    let ms = &sim.metas;
    for rho in ms {
        let Sem::SetRm { ctx, members } = &rho.sem else { continue };
        for m in members {
            // covers a remote add of m
            let covers_remote = ms.iter().any(|a| matches!(&a.sem, Sem::SetAdd { dot, members } if members.contains(m) && covers(ctx, *dot) && a.author != rho.author));
            if !covers_remote {
                continue;
            }
            for a2 in ms {
                if let Sem::SetAdd { dot, members } = &a2.sem {
                    if members.contains(m) && !covers(ctx, *dot) && !has(rho.deps, a2.id) {
                        if sim.reps.iter().any(|r| has(r.know, rho.id) && has(r.know, a2.id)) {
                            return true;
                        }
                    }
                }
            }
        }
    }
    false
}

pub fn property() -> Property {
    let mut jobs: Vec<Box<dyn JobT>> = Vec::new();
    let variants: Vec<(&str, Disc, Weights, bool, u64, u64)> = vec![
        ("Orswot/causal/ops", Disc::Causal, Weights::ops_only(), false, 24000, 150_000),
        ("Orswot/causal/ops+merges+stale", Disc::Causal, Weights::mixed(), false, 24000, 150_000),
        ("Orswot/fifo/ops", Disc::Fifo, Weights::ops_only(), true, 24000, 150_000),
        ("Orswot/fifo/ops+merges+stale", Disc::Fifo, Weights::mixed(), true, 24000, 150_000),
    ];
    for (label, disc, w, newest, q, t) in variants.clone() {
        // the same four variants over a 16-member alphabet (big sets, big remove batches)
        let label = format!("{label} [16 members]");
        let (q, t) = (q / 4, t / 4);
        let pc = PlanCfg::new(w).steps(4, 28);
        let mut ctx = Ctx::new(disc);
        ctx.cfg.newest_first = newest;
        jobs.push(
            job(label, q, t, { let pc = pc.clone(); move || plan_strategy(&pc) }, move |p: &Plan, st: &mut Stats| check_model::<SOrswotBig>(p, &ctx, st, &add_wins_situation::<SOrswotBig>, "Orswot read differs from the observed-remove/add-wins specification"))
                .decoder({ let pc = pc.clone(); move |d: &[u8]| decode_plan(&pc, d) })
                .encoder({ let pc = pc.clone(); move |t: &Plan| encode_plan(&pc, t) })
                .floor("nontrivial", 0.015)
                .boxed(),
        );
    }
    for (label, disc, w, newest, q, t) in variants {
        let pc = PlanCfg::new(w).steps(4, 28);
        let mut ctx = Ctx::new(disc);
        ctx.cfg.newest_first = newest;
        jobs.push(
            job(label, q, t, { let pc = pc.clone(); move || plan_strategy(&pc) }, move |p: &Plan, st: &mut Stats| check_model::<SOrswot>(p, &ctx, st, &add_wins_situation::<SOrswot>, "Orswot read differs from the observed-remove/add-wins specification"))
                .decoder({ let pc = pc.clone(); move |d: &[u8]| decode_plan(&pc, d) })
            .encoder({ let pc = pc.clone(); move |t: &Plan| encode_plan(&pc, t) })
            .floor("nontrivial", 0.03)
                .boxed(),
        );
    }
    Property {
        id: "C04",
        rule: "Plans of add/add_all/rm(contains ctx)/rm_all(read ctx) edits built from real reads at 2-4 editing replicas (+0-1 observer), 3 members (and, in a quarter-budget second set of jobs, 16 members: sets and remove batches of 6-16 elements), 4-28 steps, deliveries under causal or per-actor (FIFO, newest-first biased) order, duplicates, merges and stale-snapshot merges; after EVERY step the affected replica's read().val, contains(m).val/.rm_clock for every member, iter() and the set clock are compared with the dot-store specification computed from the replica's knowledge set. Non-trivial = the history contains a remove whose context covers another replica's add of member m AND an add of m the remover had not seen (concurrent or later), and some replica knows both (the add-wins situation); distinct = distinct Plan hash.".into(),
        assumptions: vec![
            "each actor is used at exactly one replica; every op is built through the API from a real read and applied at its origin first".into(),
            "delivery respects per-actor issue order (the documented Orswot contract)".into(),
            "u8 members/actors; genericity over member types is not explored".into(),
        ],
        jobs,
    }
}
