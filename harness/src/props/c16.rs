//! C16 — validate_op accepts every in-order op and rejects every gap.
use super::common::*;
use super::generic::*;
use crate::engine::*;
use crate::model::dotstore::{Payload, Store};
use crate::plan::*;
use crate::sim::*;
use crate::subject::{lists::*, map::*, merkle::*, mvreg::*, orswot::*, simple::*};

#[derive(Debug, Clone, PartialEq)]
pub enum Expect {
    Ok,
    /// exactly this rendered error
    Err(String),
    /// an error that is one of these
    ErrOneOf(Vec<String>),
    /// both readings accepted
    Either,
    /// Ok expected, but a known finding may reject: (class)
    OkOrKnown(&'static str),
}

fn known_max(sim_metas: &[OpMeta], know: Bits, actor: u8) -> u64 {
    sim_metas.iter().filter(|m| has(know, m.id)).filter_map(|m| m.sem.dot()).filter(|d| d.0 == actor).map(|d| d.1).max().unwrap_or(0)
}

fn dot_range(actor: u8, from: u64, to: u64) -> String {
    format!("DotRange {{ actor: {actor}, counter_range: {from}..{to} }}")
}

/// expectation for a dotted op validated against a replica clock
fn dotted(metas: &[OpMeta], know: Bits, dot: DotT, wrap: &dyn Fn(String) -> String) -> Expect {
    let k = known_max(metas, know, dot.0);
    if dot.1 > k + 1 {
        Expect::Err(wrap(dot_range(dot.0, k + 1, dot.1)))
    } else {
        Expect::Ok
    }
}

/// MAP-V1 trigger: the actor's previous dot is not the current witness at some level of the op's path
fn v1_trigger(ds: &Store, sem: &Sem) -> bool {
    fn go(ds: &Store, sem: &Sem, path: &mut Vec<u8>, dot: DotT) -> bool {
        match sem {
            Sem::MapUp { key, inner, .. } => {
                let w = ds.key_witness(path, *key);
                if w.get(&dot.0).copied().unwrap_or(0) < dot.1 - 1 {
                    return true;
                }
                path.push(*key);
                let r = go(ds, inner, path, dot);
                path.pop();
                r
            }
            Sem::SetAdd { .. } => {
                // nested set clock = join of add dots at this path that survive key-level removes
                let mut c = Clock::new();
                for l in ds.leaves.iter().filter(|l| l.path == *path && matches!(l.payload, Payload::Member(_))) {
                    if ds.survives_keys(l, path.len().saturating_sub(1)) {
                        join_dot(&mut c, l.dot);
                    }
                }
                c.get(&dot.0).copied().unwrap_or(0) < dot.1 - 1
            }
            _ => false,
        }
    }
    match sem {
        Sem::MapUp { dot, .. } if dot.1 >= 2 => go(ds, sem, &mut Vec::new(), *dot),
        _ => false,
    }
}

pub fn expectation<S: Subject>(sim: &Sim<S>, r: usize, op: usize) -> Expect {
    let know = sim.reps[r].know;
    let metas = &sim.metas;
    let name = S::name();
    match &metas[op].sem {
        Sem::Dot { dot } if name.starts_with("VClock") => dotted(metas, know, *dot, &|s| s),
        Sem::SetAdd { dot, .. } => dotted(metas, know, *dot, &|s| s),
        Sem::ListIns { dot, .. } | Sem::ListDel { dot, .. } => dotted(metas, know, *dot, &|s| s),
        Sem::MapUp { dot, .. } => match dotted(metas, know, *dot, &|s| format!("SourceOrder({s})")) {
            Expect::Ok => {
                let ds = Store::build(metas, know);
                if v1_trigger(&ds, &metas[op].sem) {
                    Expect::OkOrKnown("MAP-V1")
                } else {
                    Expect::Ok
                }
            }
            e => e,
        },
        Sem::Merkle { children, .. } => {
            let m = MerkleModel::build(metas, know);
            // Ok iff applying the op would insert it into the visible DAG at once, i.e. every child is visible;
            // otherwise MissingChild(h) for some child h that is not visible (never received, or received but
            // itself still buffered as an orphan)
            let invisible: Vec<String> = children.iter().filter(|c| !m.visible.contains(*c)).map(|c| format!("MissingChild({})", hx(c))).collect();
            if invisible.is_empty() {
                Expect::Ok
            } else {
                Expect::ErrOneOf(invisible)
            }
        }
        _ => Expect::Ok,
    }
}

fn check_validate<S: Subject>(plan: &Plan, ctx: &Ctx, stats: &mut Stats) -> Result<(), Fail> {
    let mut sim = new_sim::<S>(plan, &ctx.cfg, stats);
    let (mut n_next, mut n_applied, mut n_gap) = (0u64, 0u64, 0u64);
    let mut nontrivial = false;
    for step in &plan.steps {
        let ev = sim.step(step);
        let Some(r) = affected(&ev) else { continue };
        let know = sim.reps[r].know;
        let latest_own = sim.metas.iter().filter(|m| m.author == r).map(|m| m.id).max();
        for op in 0..sim.ops.len() {
            let got = S::validate_op(&sim.reps[r].st, &sim.ops[op]);
            let exp = expectation(&sim, r, op);
            stats.observations += 1;
            let ok = match (&exp, &got) {
                (Expect::Ok, Ok(())) => true,
                (Expect::Err(e), Err(g)) => e == g,
                (Expect::ErrOneOf(es), Err(g)) => es.contains(g),
                (Expect::Either, _) => true,
                (Expect::OkOrKnown(_), Ok(())) => true,
                (Expect::OkOrKnown(c), Err(g)) => {
                    if stats.strict || !crate::engine::class_enabled(c) || !(g.starts_with("SourceOrder") || g.starts_with("Value")) {
                        false
                    } else {
                        stats.exempt(c);
                        true
                    }
                }
                _ => false,
            };
            if !ok {
                let kind = if has(know, op) { "already applied" } else if sim.eligible(r, op, Disc::Fifo) { "next in its actor's order" } else { "out of order" };
                let f = Fail::new(format!("validate_op at r{r} of op#{op} ({kind}; {}) returned {got:?}, expected {exp:?}", sim.metas[op].call));
                return Err(fail_with(&sim, stats, f));
            }
            if has(know, op) {
                n_applied += 1;
            } else if matches!(exp, Expect::Err(_) | Expect::ErrOneOf(_)) {
                n_gap += 1;
            } else {
                n_next += 1;
            }
            let mut clock_actors: Vec<u8> = bits_iter(know).filter_map(|o| sim.metas[o].sem.dot().map(|d| d.0)).collect();
            clock_actors.sort();
            clock_actors.dedup();
            let multi = clock_actors.len() >= 2 || (!subject_has_dots::<S>() && bits_iter(know).map(|o| sim.metas[o].author).collect::<std::collections::BTreeSet<_>>().len() >= 2);
            if multi && Some(op) != latest_own {
                nontrivial = true;
            }
        }
    }
    classify_common(&sim, stats);
    stats.class_n("probes: op next in order / not yet applied and acceptable", n_next);
    stats.class_n("probes: op already applied", n_applied);
    stats.class_n("probes: op skipping an update (must be rejected)", n_gap);
    if nontrivial {
        stats.cur_nontrivial = true;
        stats.class("nontrivial");
    }
    finish(&sim, stats);
    Ok(())
}

fn subject_has_dots<S: Subject>() -> bool {
    let n = S::name();
    !(n.starts_with("GSet") || n.starts_with("LWW") || n.starts_with("MaxReg") || n.starts_with("MinReg") || n.starts_with("GList") || n.starts_with("Merkle"))
}

fn add<S: Subject>(jobs: &mut Vec<Box<dyn JobT>>, disc: Disc, q: u64, t: u64) {
    let pc = PlanCfg::new(Weights::ops_only()).steps(6, 26).editors(2, 4).observers(0, 1);
    let pc = pc.long_share(S::LONG);
    let ctx = Ctx::new(disc).newest();
    jobs.push(mk_job(format!("{}/{:?}/validate every op at every step", S::name(), disc), q, t, pc, ctx, check_validate::<S>).floor("nontrivial", 0.2).boxed());
}

pub fn property() -> Property {
    let mut jobs: Vec<Box<dyn JobT>> = Vec::new();
    add::<SVClock>(&mut jobs, Disc::Any, 12000, 100_000);
    add::<SOrswot>(&mut jobs, Disc::Fifo, 15000, 150_000);
    add::<SOrswotBig>(&mut jobs, Disc::Fifo, 3750, 37500);
    add::<SList>(&mut jobs, Disc::Causal, 12000, 100_000);
    add::<MapOrswot>(&mut jobs, Disc::Causal, 15000, 150_000);
    add::<MapOrswotBig>(&mut jobs, Disc::Causal, 3750, 37500);
    add::<MapOrswot>(&mut jobs, Disc::Fifo, 12000, 100_000);
    add::<MapOrswotBig>(&mut jobs, Disc::Fifo, 3000, 25000);
    add::<MapMVReg>(&mut jobs, Disc::Causal, 15000, 150_000);
    add::<MapMVRegBig>(&mut jobs, Disc::Causal, 3750, 37500);
    add::<MapMapMVReg>(&mut jobs, Disc::Causal, 12000, 100_000);
    add::<SMerkle>(&mut jobs, Disc::Any, 12000, 100_000);
    add::<SLww>(&mut jobs, Disc::Any, 6000, 40_000);
    add::<SMVReg>(&mut jobs, Disc::Any, 6000, 40_000);
    add::<SGCounter>(&mut jobs, Disc::Any, 6000, 40_000);
    add::<SPNCounter>(&mut jobs, Disc::Any, 6000, 40_000);
    add::<SGSet>(&mut jobs, Disc::Any, 3000, 20_000);
    add::<SMax>(&mut jobs, Disc::Any, 3000, 20_000);
    add::<SMin>(&mut jobs, Disc::Any, 3000, 20_000);
    add::<SGList>(&mut jobs, Disc::Any, 3000, 20_000);
    jobs.push(super::c11::lww_flag_job(30000, 200_000));
    Property {
        id: "C16",
        rule: "Histories as in C01/C08; after EVERY step, validate_op is called at the affected replica for EVERY op generated so far (ops next in their actor's order, already-applied ops, and ops that would skip an update). Model: dotted ops (VClock, Orswot add, List insert/delete, Map update) are Ok iff dot.counter <= (largest counter of that actor the replica knows)+1, otherwise the exact error DotRange{actor, known+1..counter} (wrapped in SourceOrder for Map); removes always Ok; MerkleReg Ok iff all children are visible (applying would insert the node at once), otherwise MissingChild(h) with h a non-visible child (never received, or still buffered as an orphan); LWWReg ConflictingMarker iff equal marker and different value (dedicated job with colliding markers); all other types always Ok. Non-trivial = probe at a replica knowing >=2 actors' updates for an op that is not its own latest; distinct = distinct Plan hash.".into(),
        assumptions: vec!["known finding MAP-V1 (exempted, counted): Map::validate_op rejects an in-order update when the actor's previous dot is not the current witness of that key / nested key / nested set (second key, key removed meanwhile, previous update was a nested remove), and for re-deliveries of updates".into()],
        jobs,
    }
}
