//! C13 — List and GList edits land at the requested index (sequential-list model).
use super::common::*;
use super::generic::*;
use crate::engine::*;
use crate::plan::*;
use crate::sim::*;
use crate::subject::lists::*;
use crate::tree::to_tree;
use crdts::CmRDT;

/// do two adjacent identifiers share their leading rational (concurrently inserted siblings /
/// forked paths)?  read from the serde form [[ratio, marker], ...]
fn leading(v: &serde_json::Value) -> serde_json::Value {
    v[0][0].clone()
}

fn list_state_checks(sim: &Sim<SList>, r: usize, stats: &mut Stats) -> Result<bool, Fail> {
    let st = &sim.reps[r].st;
    let base = list_seq(st);
    let len = base.len();
    // "behaves exactly like a Vec": every read entry point (len, is_empty, iter, iter_entries, position, position_entry, get,
    // first / last (+ _entry), read_into) agrees with read() in this state
    if let Some(a) = SList::observe(st).get("api").and_then(|a| a.as_array()) {
        if let Some(first) = a.first() {
            return Err(Fail::new(format!("r{r}: List read API disagrees with read() = {base:?}: {first}")));
        }
    }
    let actor = sim.reps[r].actor.unwrap_or(99);
    for i in 0..=len + 2 {
        let op = st.insert_index(i, 4_000_000 + i as u32, actor);
        let mut c = st.clone();
        c.apply(op);
        let mut m = base.clone();
        m.insert(i.min(len), 4_000_000 + i as u32);
        stats.observations += 1;
        if list_seq(&c) != m {
            return Err(Fail::new(format!("r{r}: insert_index({i}, x) on {base:?} gives {:?}, Vec model gives {m:?}", list_seq(&c))));
        }
        if c.position(i.min(len)) != Some(&(4_000_000 + i as u32)) {
            return Err(Fail::new(format!("r{r}: position({}) after insert_index({i}) is not the new element", i.min(len))));
        }
    }
    {
        let op = st.append(5_000_000, actor);
        let mut c = st.clone();
        c.apply(op);
        let mut m = base.clone();
        m.push(5_000_000);
        if list_seq(&c) != m {
            return Err(Fail::new(format!("r{r}: append(x) on {base:?} gives {:?}", list_seq(&c))));
        }
    }
    for i in 0..len + 2 {
        match st.delete_index(i, actor) {
            Some(op) => {
                if i >= len {
                    return Err(Fail::new(format!("r{r}: delete_index({i}) beyond len {len} returned an op")));
                }
                let mut c = st.clone();
                c.apply(op);
                let mut m = base.clone();
                m.remove(i);
                stats.observations += 1;
                if list_seq(&c) != m {
                    return Err(Fail::new(format!("r{r}: delete_index({i}) on {base:?} gives {:?}, Vec model gives {m:?}", list_seq(&c))));
                }
            }
            None => {
                if i < len {
                    return Err(Fail::new(format!("r{r}: delete_index({i}) within len {len} returned None")));
                }
            }
        }
    }
    // non-trivial state: two adjacent identifiers with the same leading rational
    let ids: Vec<serde_json::Value> = st.iter_entries().map(|(id, _)| to_tree(id)).collect();
    Ok(ids.windows(2).any(|w| leading(&w[0]) == leading(&w[1])))
}

fn check_list_index(plan: &Plan, ctx: &Ctx, stats: &mut Stats) -> Result<(), Fail> {
    let mut sim = new_sim::<SList>(plan, &ctx.cfg, stats);
    let mut nt = false;
    for (i, step) in plan.steps.iter().enumerate() {
        let ev = sim.step(step);
        if let Some(r) = affected(&ev) {
            // every few steps and at the end: the full index sweep on the affected replica
            if i % 4 == 3 || i + 1 == plan.steps.len() {
                match list_state_checks(&sim, r, stats) {
                    Ok(b) => nt |= b,
                    Err(f) => return Err(fail_with(&sim, stats, f)),
                }
            }
        }
    }
    for r in 0..sim.reps.len() {
        match list_state_checks(&sim, r, stats) {
            Ok(b) => nt |= b,
            Err(f) => return Err(fail_with(&sim, stats, f)),
        }
    }
    classify_common(&sim, stats);
    if nt {
        stats.cur_nontrivial = true;
        stats.class("nontrivial");
    }
    finish(&sim, stats);
    Ok(())
}

fn glist_state_checks(sim: &Sim<SGList>, r: usize, stats: &mut Stats) -> Result<bool, Fail> {
    let st = &sim.reps[r].st;
    let base = glist_seq(st);
    let len = base.len();
    if let Some(a) = SGList::observe(st).get("api").and_then(|a| a.as_array()) {
        if let Some(first) = a.first() {
            return Err(Fail::new(format!("r{r}: GList read API disagrees with read() = {base:?}: {first}")));
        }
    }
    let apply = |op: crdts::glist::Op<u32>| {
        let mut c = st.clone();
        c.apply(op);
        glist_seq(&c)
    };
    for i in 0..=len {
        let x = 4_000_000 + i as u32;
        let mut m = base.clone();
        m.insert(i, x);
        stats.observations += 1;
        let got = apply(st.insert(i, x));
        if got != m {
            return Err(Fail::new(format!("r{r}: GList insert({i}, x) on {base:?} gives {got:?}, Vec model gives {m:?}")));
        }
    }
    for i in 0..len {
        let x = 6_000_000 + i as u32;
        let id = st.get(i).cloned();
        let mut m = base.clone();
        m.insert(i + 1, x);
        let got = apply(st.insert_after(id.as_ref(), x));
        if got != m {
            return Err(Fail::new(format!("r{r}: GList insert_after(id of #{i}, x) on {base:?} gives {got:?}, expected {m:?}")));
        }
        let mut m = base.clone();
        m.insert(i, x);
        let got = apply(st.insert_before(id.as_ref(), x));
        stats.observations += 2;
        if got != m {
            return Err(Fail::new(format!("r{r}: GList insert_before(id of #{i}, x) on {base:?} gives {got:?}, expected {m:?}")));
        }
    }
    let ids: Vec<serde_json::Value> = st.iter().map(to_tree).collect();
    Ok(ids.windows(2).any(|w| leading(&w[0]) == leading(&w[1])))
}

fn check_glist_index(plan: &Plan, ctx: &Ctx, stats: &mut Stats) -> Result<(), Fail> {
    let mut sim = new_sim::<SGList>(plan, &ctx.cfg, stats);
    let mut nt = false;
    for (i, step) in plan.steps.iter().enumerate() {
        let ev = sim.step(step);
        if let Some(r) = affected(&ev) {
            if i % 4 == 3 || i + 1 == plan.steps.len() {
                match glist_state_checks(&sim, r, stats) {
                    Ok(b) => nt |= b,
                    Err(f) => return Err(fail_with(&sim, stats, f)),
                }
            }
        }
    }
    for r in 0..sim.reps.len() {
        match glist_state_checks(&sim, r, stats) {
            Ok(b) => nt |= b,
            Err(f) => return Err(fail_with(&sim, stats, f)),
        }
    }
    classify_common(&sim, stats);
    if nt {
        stats.cur_nontrivial = true;
        stats.class("nontrivial");
    }
    finish(&sim, stats);
    Ok(())
}

pub fn property() -> Property {
    let mut jobs: Vec<Box<dyn JobT>> = Vec::new();
    let w = Weights { edit: 50, deliver: 40, redeliver: 5, merge: 0, snapshot: 0, merge_snapshot: 0, save_restore: 0, probe: 0 };
    let pc = PlanCfg::new(w).steps(8, 30).editors(2, 4);
    jobs.push(mk_job("List<u32,u8>/index sweep on concurrently built states", 36000, 100_000, pc, Ctx::new(Disc::Causal), check_list_index).floor("nontrivial", 0.2).boxed());
    let pc = PlanCfg::new(Weights::mixed()).steps(8, 30).editors(2, 4);
    jobs.push(mk_job("GList<u32>/index sweep on merged concurrent states", 36000, 100_000, pc, Ctx::new(Disc::Any), check_glist_index).floor("nontrivial", 0.2).boxed());
    Property {
        id: "C13",
        rule: "Reachable List/GList states built by concurrent histories (equal-rational siblings, forked identifier paths, remote ops, GList merges); on the affected replica every few steps and on every replica at the end: every read entry point (len, is_empty, iter, iter_entries, position, position_entry, get, first/last, first_entry/last_entry, read_into, Identifier::value/into_value) agrees with read(); List insert_index(i,x) for EVERY i in 0..=len+2 (clamped), append, delete_index(i) for every i<len+2 (None beyond len); GList insert(i,x) for every i in 0..=len, insert_after(Some(id)) and insert_before(Some(id)) for every id present; each returned op is applied to a clone and the read is compared with a Vec model (x at min(i,len); exactly the i-th element gone; immediately after/before the identified element; everything else in the same relative order). Non-trivial = the probed state contains two adjacent identifiers with the same leading rational (concurrently inserted neighbours); distinct = distinct Plan hash.".into(),
        assumptions: vec!["GList::insert is only called with idx <= len (documented precondition: it asserts)".into()],
        jobs,
    }
}
