//! C06 — MVReg read returns exactly the causally-maximal writes.
use super::common::*;
use super::generic::*;
use crate::engine::*;
use crate::plan::*;
use crate::sim::*;
use crate::subject::mvreg::SMVReg;

/// >=3 writes, a write that observed some but not all of the values concurrent at that time,
/// and a replica that received a dominated write after its dominator.
fn nontrivial(sim: &Sim<SMVReg>) -> bool {
    let ms = &sim.metas;
    if ms.len() < 3 {
        return false;
    }
    // partial observer: write w, and two earlier writes u,v mutually concurrent, u in deps(w), v not in deps(w)
    let mut partial = false;
    for w in ms {
        for u in bits_iter(w.deps) {
            for v in 0..w.id {
                if v != u && !has(w.deps, v) && concurrent(ms, u, v) {
                    partial = true;
                }
            }
        }
    }
    partial
}

pub fn property() -> Property {
    let mut jobs: Vec<Box<dyn JobT>> = Vec::new();
    let variants: Vec<(&str, Disc, Weights, u64, u64)> = vec![
        ("MVReg/any-order/ops+dups", Disc::Any, Weights::ops_only().with_redeliver(12), 60000, 200_000),
        ("MVReg/any-order/ops+merges+stale", Disc::Any, Weights::mixed(), 60000, 200_000),
        ("MVReg/causal/ops", Disc::Causal, Weights::ops_only(), 24000, 60_000),
    ];
    for (label, disc, w, q, t) in variants {
        let pc = PlanCfg::new(w).steps(4, 28);
        let mut ctx = Ctx::new(disc);
        ctx.cfg.newest_first = disc == Disc::Any;
        jobs.push(
            job(label, q, t, { let pc = pc.clone(); move || plan_strategy(&pc) }, move |p: &Plan, st: &mut Stats| {
                // late-dominated class: counted from the model
                check_model::<SMVReg>(p, &ctx, st, &nontrivial, "MVReg read differs from the causally-maximal-writes specification")
            })
            .decoder({ let pc = pc.clone(); move |d: &[u8]| decode_plan(&pc, d) })
            .encoder({ let pc = pc.clone(); move |t: &Plan| encode_plan(&pc, t) })
            .floor("nontrivial", 0.03)
            .boxed(),
        );
    }
    Property {
        id: "C06",
        rule: "Plans of writes derived from read()/read_ctx() at 2-4 replicas with deliberately repeated values, delivered in ANY order (newest-first biased so dominated writes arrive after their dominators), duplicates, merges, stale-snapshot merges; after every step the affected replica's read().val (as a multiset) and add_clock are compared with the knowledge-set model (writes not in the causal past of another known write; clock = join of their contexts). Non-trivial = >=3 writes and some write that observed one but not the other of two mutually concurrent earlier writes; distinct = distinct Plan hash.".into(),
        assumptions: vec!["each actor is used at exactly one replica; writes are derived from real reads and applied at the origin first".into(), "u16 values, u8 actors".into()],
        jobs,
    }
}
