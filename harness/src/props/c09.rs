//! C09 — duplicates and stale states are absorbed; removed data never resurrects.
use super::exempt::{explain_eq, Class, Lineage};
use super::generic::*;
use crate::engine::*;
use crate::plan::*;
use crate::sim::*;
use crate::subject::{lists::*, map::*, merkle::*, mvreg::*, orswot::*, simple::*};

fn weights(merge: bool) -> Weights {
    if merge {
        Weights { edit: 34, deliver: 24, redeliver: 16, merge: 8, snapshot: 8, merge_snapshot: 12, save_restore: 0, probe: 0 }
    } else {
        Weights { edit: 38, deliver: 38, redeliver: 24, merge: 0, snapshot: 0, merge_snapshot: 0, save_restore: 0, probe: 0 }
    }
}

fn add<S: Subject>(jobs: &mut Vec<Box<dyn JobT>>, disc: Disc, ex: &[Class], eq_ex: &'static [Class], q: u64, t: u64, floor: f64) {
    let pc = PlanCfg::new(weights(S::MERGE)).steps(6, 30).observers(0, 1);
    let pc = pc.long_share(S::LONG);
    let ctx = Ctx::new(disc).ex(ex);
    let label = format!("{}/{:?}/duplicates+stale states", S::name(), disc);
    jobs.push(
        job(label, q, t, { let pc = pc.clone(); move || plan_strategy(&pc) }, move |p: &Plan, st: &mut Stats| check_absorb::<S>(p, &ctx, st, &|sim: &Sim<S>, know: Bits, lin: &Lineage| explain_eq(sim, know, lin, eq_ex)))
            .decoder({ let pc = pc.clone(); move |d: &[u8]| decode_plan(&pc, d) })
            .encoder({ let pc = pc.clone(); move |t: &Plan| encode_plan(&pc, t) })
            .floor("nontrivial", floor)
            .boxed(),
    );
}

pub fn property() -> Property {
    let mut jobs: Vec<Box<dyn JobT>> = Vec::new();
    add::<SOrswot>(&mut jobs, Disc::Causal, &[], &[], 18000, 200_000, 0.03);
    add::<SOrswotBig>(&mut jobs, Disc::Causal, &[], &[], 4500, 50000, 0.015);
    add::<SOrswot>(&mut jobs, Disc::Fifo, &[], &[], 18000, 200_000, 0.03);
    add::<SOrswotBig>(&mut jobs, Disc::Fifo, &[], &[], 4500, 50000, 0.015);
    add::<SMVReg>(&mut jobs, Disc::Any, &[], &[], 18000, 200_000, 0.03);
    add::<MapOrswot>(&mut jobs, Disc::Causal, &[Class::T1], &[Class::T1, Class::T4], 18000, 200_000, 0.03);
    add::<MapOrswotBig>(&mut jobs, Disc::Causal, &[Class::T1], &[Class::T1, Class::T4], 4500, 50000, 0.015);
    add::<MapMapOrswot>(&mut jobs, Disc::Causal, &[Class::T1], &[Class::T1, Class::T4], 12000, 100_000, 0.03);
    add::<MapMVReg>(&mut jobs, Disc::Causal, &[Class::T1, Class::T2, Class::T5], &[Class::T1, Class::T2, Class::T2b, Class::T5], 18000, 200_000, 0.03);
    add::<MapMVRegBig>(&mut jobs, Disc::Causal, &[Class::T1, Class::T2, Class::T5], &[Class::T1, Class::T2, Class::T2b, Class::T5], 4500, 50000, 0.015);
    add::<MapMapMVReg>(&mut jobs, Disc::Causal, &[Class::T1, Class::T2, Class::T5], &[Class::T1, Class::T2, Class::T2b, Class::T4, Class::T5], 12000, 100_000, 0.03);
    add::<SList>(&mut jobs, Disc::Causal, &[], &[], 12000, 100_000, 0.03);
    add::<SMerkle>(&mut jobs, Disc::Any, &[], &[], 12000, 100_000, 0.03);
    add::<SGList>(&mut jobs, Disc::Any, &[], &[], 6000, 40_000, 0.03);
    add::<SVClock>(&mut jobs, Disc::Any, &[], &[], 6000, 40_000, 0.03);
    add::<SGCounter>(&mut jobs, Disc::Any, &[], &[], 6000, 40_000, 0.03);
    add::<SPNCounter>(&mut jobs, Disc::Any, &[], &[], 6000, 40_000, 0.03);
    add::<SGSet>(&mut jobs, Disc::Any, &[], &[], 6000, 40_000, 0.03);
    add::<SLww>(&mut jobs, Disc::Any, &[], &[], 6000, 40_000, 0.03);
    add::<SMax>(&mut jobs, Disc::Any, &[], &[], 6000, 40_000, 0.03);
    add::<SMin>(&mut jobs, Disc::Any, &[], &[], 6000, 40_000, 0.03);
    Property {
        id: "C09",
        rule: "Plans rich in re-deliveries of already-applied ops (old ops after later ops of other actors), merges of remembered snapshots (own past, lagging peers) and merges of states whose knowledge is a subset of the receiver's. Whenever the delivered op is already known, or the merged state's knowledge is a subset of the receiver's, all reads+contexts AND `==` of the receiver must be unchanged by the step; on all other steps the reads are compared with the specification model (an element whose adds are all covered stays absent). Non-trivial = an absorbed op/state that carries an add/update covered by a remove the receiver knows (resurrection bait) or an old remove re-delivered after a newer update (for types without removes: an absorbed op older than something known); distinct = distinct Plan hash.".into(),
        assumptions: vec![
            "each actor confined to one replica; delivery discipline as documented per type".into(),
            "exemptions (known findings), counted: reads: MAP-T1/T2/T5 per key; `==` only: MAP-T4 (Map<_,Orswot> residue cleaned by a re-delivered key remove), MAP-T2b (re-delivered key remove strips stored contexts), MAP-T5 (stale merge strips stored contexts)".into(),
        ],
        jobs,
    }
}
