pub mod c01;
pub mod c02;
pub mod c03;
pub mod c04;
pub mod c05;
pub mod c06;
pub mod c07;
pub mod c08;
pub mod c09;
pub mod c10;
pub mod c11;
pub mod c12;
pub mod c13;
pub mod c14;
pub mod c15;
pub mod c16;
pub mod c17;
pub mod c18;
pub mod c19;
pub mod c20;
pub mod common;
pub mod exempt;
pub mod generic;

use crate::engine::Property;

pub fn all_ids() -> Vec<&'static str> {
    vec!["C01","C02","C03","C04","C05","C06","C07","C08","C09","C10","C11","C12","C13","C14","C15","C16","C17","C18","C19","C20"]
}

pub fn build(id: &str) -> Option<Property> {
    match id {
        "C01" => Some(c01::property()),
        "C02" => Some(c02::property()),
        "C03" => Some(c03::property()),
        "C04" => Some(c04::property()),
        "C05" => Some(c05::property()),
        "C06" => Some(c06::property()),
        "C07" => Some(c07::property()),
        "C08" => Some(c08::property()),
        "C09" => Some(c09::property()),
        "C10" => Some(c10::property()),
        "C11" => Some(c11::property()),
        "C12" => Some(c12::property()),
        "C13" => Some(c13::property()),
        "C14" => Some(c14::property()),
        "C15" => Some(c15::property()),
        "C16" => Some(c16::property()),
        "C17" => Some(c17::property()),
        "C18" => Some(c18::property()),
        "C19" => Some(c19::property()),
        "C20" => Some(c20::property()),
        _ => None,
    }
}
