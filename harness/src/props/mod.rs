pub mod c04;
pub mod c06;
pub mod common;

use crate::engine::Property;

pub fn all_ids() -> Vec<&'static str> {
    vec!["C04", "C06"]
}

pub fn build(id: &str) -> Option<Property> {
    match id {
        "C04" => Some(c04::property()),
        "C06" => Some(c06::property()),
        _ => None,
    }
}
