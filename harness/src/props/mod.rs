pub mod c01;
pub mod c02;
pub mod c03;
pub mod c04;
pub mod c05;
pub mod c06;
pub mod c07;
pub mod c08;
pub mod c09;
pub mod c10;
pub mod c11;
pub mod c14;
pub mod common;
pub mod exempt;
pub mod generic;

use crate::engine::Property;

pub fn all_ids() -> Vec<&'static str> {
    vec!["C04", "C06"]
}

pub fn build(id: &str) -> Option<Property> {
    match id {
        "C01" => Some(c01::property()),
        "C02" => Some(c02::property()),
        "C03" => Some(c03::property()),
        "C04" => Some(c04::property()),
        "C05" => Some(c05::property()),
        "C06" => Some(c06::property()),
        "C07" => Some(c07::property()),
        "C08" => Some(c08::property()),
        "C09" => Some(c09::property()),
        "C10" => Some(c10::property()),
        "C11" => Some(c11::property()),
        "C14" => Some(c14::property()),
        _ => None,
    }
}
