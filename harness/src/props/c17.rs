//! C17 — validate_merge flags reused dots and nothing else.
use super::common::*;
use super::generic::*;
use crate::engine::*;
use crate::plan::*;
use crate::sim::*;
use crate::subject::{map::*, orswot::*, simple::*};
use serde_json::Value;

/// model: the knowledge contains a single add that stamps two members with one dot (add_all)
fn multi_member_add(metas: &[OpMeta], know: Bits) -> bool {
    fn go(s: &Sem) -> bool {
        match s {
            Sem::SetAdd { members, .. } => members.len() >= 2,
            Sem::MapUp { inner, .. } => go(inner),
            _ => false,
        }
    }
    metas.iter().any(|m| has(know, m.id) && go(&m.sem))
}

/// all (element, dot) pairs that are current witnesses according to the reads
fn witnesses(o: &Obs) -> Vec<(String, u8, u64)> {
    let mut v = Vec::new();
    for (k, val) in o {
        if k.starts_with("member:") || k.starts_with("key:") {
            if let Some(Value::Object(w)) = val.get("witness") {
                for (a, n) in w {
                    v.push((k.clone(), a.parse().unwrap(), n.as_u64().unwrap()));
                }
            }
        }
    }
    v
}

fn double_spent(a: &Obs, b: &Obs) -> Option<(String, String, u8, u64)> {
    let (wa, wb) = (witnesses(a), witnesses(b));
    for (e1, ac, n) in &wa {
        for (e2, bc, m) in &wb {
            if e1 != e2 && ac == bc && n == m {
                return Some((e1.clone(), e2.clone(), *ac, *n));
            }
        }
    }
    None
}

fn clocks_concurrent(a: &Clock, b: &Clock) -> bool {
    let le = |x: &Clock, y: &Clock| x.iter().all(|(k, n)| y.get(k).copied().unwrap_or(0) >= *n);
    !le(a, b) && !le(b, a)
}

/// one dot is the current witness of two different NESTED members under the same key in the two states, and the two entries are
/// concurrent (their observed key witnesses are incomparable): (key, member in a, member in b, actor, counter)
fn nested_double_spent<S: Subject>(a: &S::St, b: &S::St) -> Option<(String, String, String, u8, u64)> {
    let (na, nb) = (S::nested_witnesses(a), S::nested_witnesses(b));
    for (ka, wa, ma) in &na {
        for (kb, wb, mb) in &nb {
            if ka != kb || !clocks_concurrent(wa, wb) {
                continue;
            }
            for (m1, ac, n) in ma {
                for (m2, bc, m) in mb {
                    if m1 != m2 && ac == bc && n == m {
                        return Some((ka.clone(), m1.clone(), m2.clone(), *ac, *n));
                    }
                }
            }
        }
    }
    None
}

fn check_validate_merge<S: Subject>(plan: &Plan, ctx: &Ctx, stats: &mut Stats, misuse: bool) -> Result<(), Fail> {
    let mut sim = new_sim::<S>(plan, &ctx.cfg, stats);
    if misuse && sim.reps.len() >= 2 {
        // the deliberate, single exception to the actor discipline: r1 uses r0's actor independently
        sim.reps[1].actor = sim.reps[0].actor;
        if sim.trace {
            sim.log.push("MISUSE: r1 uses the same actor identity as r0".into());
        }
    }
    let mut nontrivial = false;
    for step in &plan.steps {
        let ev = sim.step(step);
        let changed = affected(&ev);
        if changed.is_none() && !matches!(ev, Event::Probe { .. }) {
            continue;
        }
        // all pairs of current states + snapshots
        let mut states: Vec<(&S::St, Bits, String)> = sim.reps.iter().enumerate().map(|(i, r)| (&r.st, r.know, format!("r{i}"))).collect();
        for (i, s) in sim.snaps.iter().enumerate() {
            states.push((&s.st, s.know, format!("snapshot s{i}")));
        }
        for i in 0..states.len() {
            for j in 0..i {
                // only pairs involving the state that just changed are new
                if let Some(c) = changed {
                    if i != c && j != c {
                        continue;
                    }
                }
                let (a, ka, na) = &states[i];
                let (b, kb, nb) = &states[j];
                let ab = S::validate_merge(a, b);
                let ba = S::validate_merge(b, a);
                stats.observations += 2;
                if ab.is_ok() != ba.is_ok() {
                    let f = Fail::new(format!("validate_merge verdict depends on direction for {na} / {nb}: {ab:?} vs {ba:?}"));
                    return Err(fail_with(&sim, stats, f));
                }
                let (oa, ob) = (S::observe(a), S::observe(b));
                let ds = double_spent(&oa, &ob);
                if !misuse {
                    if let Err(e) = &ab {
                        let known = multi_member_add(&sim.metas, ka | kb);
                        if known && !stats.strict && crate::engine::class_enabled("ORSWOT-V2") && e.contains("DoubleSpentDot") {
                            stats.exempt("ORSWOT-V2");
                        } else {
                            let f = Fail::new(format!("validate_merge({na}, {nb}) = {e} although every actor is confined to one replica (correct use)"));
                            return Err(fail_with(&sim, stats, f));
                        }
                    }
                    let overlap = ka & kb != 0 && ka != kb && has_remote_observed_remove(&sim.metas);
                    if overlap {
                        nontrivial = true;
                    }
                } else if let Some((e1, e2, ac, n)) = ds {
                    // one dot is the current witness of two different elements across the two states
                    if ab.is_ok() {
                        let f = Fail::new(format!("dot ({ac},{n}) is the current witness of {e1} in {na} and of {e2} in {nb}, but validate_merge returned Ok"));
                        return Err(fail_with(&sim, stats, f));
                    }
                    nontrivial = true;
                } else if let Some((k, m1, m2, ac, n)) = nested_double_spent::<S>(a, b) {
                    stats.class("misuse: nested double-spent dot under one key, entries concurrent");
                    if ab.is_ok() {
                        let f = Fail::new(format!("dot ({ac},{n}) is the current witness of {m1} under {k} in {na} and of {m2} under {k} in {nb} (entries concurrent), but validate_merge returned Ok"));
                        return Err(fail_with(&sim, stats, f));
                    }
                    nontrivial = true;
                }
            }
        }
    }
    classify_common(&sim, stats);
    if nontrivial {
        stats.cur_nontrivial = true;
        stats.class("nontrivial");
    }
    finish(&sim, stats);
    Ok(())
}

fn correct<S: Subject>(plan: &Plan, ctx: &Ctx, stats: &mut Stats) -> Result<(), Fail> {
    check_validate_merge::<S>(plan, ctx, stats, false)
}
fn misuse<S: Subject>(plan: &Plan, ctx: &Ctx, stats: &mut Stats) -> Result<(), Fail> {
    check_validate_merge::<S>(plan, ctx, stats, true)
}

fn add<S: Subject>(jobs: &mut Vec<Box<dyn JobT>>, q: u64, t: u64) {
    let w = Weights { edit: 42, deliver: 26, redeliver: 4, merge: 14, snapshot: 8, merge_snapshot: 6, save_restore: 0, probe: 0 };
    let pc = PlanCfg::new(w.clone()).steps(5, 22).editors(2, 4);
    let pc = pc.long_share(S::LONG);
    jobs.push(mk_job(format!("{}/correct use", S::name()), q, t, pc, Ctx::new(Disc::Causal), correct::<S>).floor("nontrivial", 0.05).boxed());
    let w2 = Weights { edit: 60, deliver: 20, redeliver: 2, merge: 8, snapshot: 6, merge_snapshot: 4, save_restore: 0, probe: 0 };
    let pc = PlanCfg::new(w2).steps(4, 16).editors(2, 3);
    let pc = pc.long_share(S::LONG);
    jobs.push(mk_job(format!("{}/misuse: one actor at two replicas", S::name()), q, t, pc, Ctx::new(Disc::Causal), misuse::<S>).floor("nontrivial", 0.05).boxed());
}

pub fn property() -> Property {
    let mut jobs: Vec<Box<dyn JobT>> = Vec::new();
    add::<SOrswot>(&mut jobs, 8000, 150_000);
    add::<SOrswotBig>(&mut jobs, 2000, 37500);
    add::<MapOrswot>(&mut jobs, 8000, 150_000);
    add::<MapOrswotBig>(&mut jobs, 2000, 37500);
    add::<MapMVReg>(&mut jobs, 8000, 150_000);
    add::<MapMVRegBig>(&mut jobs, 2000, 37500);
    add::<MapMapMVReg>(&mut jobs, 4000, 60_000);
    {
        // LWWReg: correct use (unique markers) is always accepted in both directions
        let w = Weights { edit: 42, deliver: 26, redeliver: 4, merge: 14, snapshot: 8, merge_snapshot: 6, save_restore: 0, probe: 0 };
        let pc = PlanCfg::new(w).steps(5, 22).editors(2, 4);
        jobs.push(mk_job("LWWReg<u16,u64>/correct use", 6000, 60_000, pc, Ctx::new(Disc::Any), correct::<SLww>).boxed());
    }
    jobs.push(super::c11::lww_flag_job(20000, 200_000));
    Property {
        id: "C17",
        rule: "(correct use) Plans as in C02 on Orswot, Map<u8,Orswot>, Map<u8,MVReg>, Map<u8,Map<u8,MVReg>>, LWWReg; after every step validate_merge is called in BOTH directions on every pair of current replica states and remembered snapshots: must be Ok and direction-independent. (misuse) the same Plans with replica r1 deliberately using r0's actor: whenever the reads show one dot as the current witness (contains(m).rm_clock / get(k).rm_clock) of two different members/keys across the two states, validate_merge must return an error; the verdict must be direction-independent; LWWReg: conflict iff equal marker and different value (dedicated colliding-marker job). Non-trivial = correct-use pair with overlapping but different knowledge in a history with a remove that observed a remote update / misuse pair where a double-spent dot is still a current witness on both sides; distinct = distinct Plan hash.".into(),
        assumptions: vec!["known finding ORSWOT-V2 (exempted, counted): after a single add_all of >=2 members (top level or nested in a Map) validate_merge reports DoubleSpentDot for correct use; histories whose knowledge contains no multi-member add are strict".into()],
        jobs,
    }
}
