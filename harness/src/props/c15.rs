//! C15 — MerkleReg state is a function of the node set; reads are the DAG heads.
use super::common::*;
use super::generic::*;
use crate::engine::*;
use crate::plan::*;
use crate::sim::*;
use crate::subject::merkle::*;
use crdts::merkle_reg::{Hash, MerkleReg, Node};
use crdts::{CmRDT, CvRDT};
use serde_json::json;
use std::collections::BTreeSet;
use std::sync::Arc;

/// full comparison of a register with the model of a received node set
fn compare(reg: &MerkleReg<Vec<u8>>, m: &MerkleModel, what: &str) -> Result<(), Fail> {
    let heads: BTreeSet<Hash> = m.heads().into_iter().collect();
    if reg.read().hashes() != heads {
        return Err(Fail::new(format!("{what}: read() heads {:?} != model heads {:?}", reg.read().hashes().iter().map(hx).collect::<Vec<_>>(), heads.iter().map(hx).collect::<Vec<_>>())));
    }
    if reg.num_nodes() != m.visible.len() || reg.num_orphans() != m.received.len() - m.visible.len() {
        return Err(Fail::new(format!("{what}: num_nodes/num_orphans = {}/{} but model says {}/{}", reg.num_nodes(), reg.num_orphans(), m.visible.len(), m.received.len() - m.visible.len())));
    }
    for (h, ch) in &m.received {
        match reg.node(*h) {
            None => return Err(Fail::new(format!("{what}: node({}) is None although the node was received", hx(h)))),
            Some(n) => {
                if n.hash() != *h {
                    return Err(Fail::new(format!("{what}: node({}) returns a different node", hx(h))));
                }
            }
        }
        let vis = m.visible.contains(h);
        let kids = reg.children(*h).hashes();
        let want_kids: BTreeSet<Hash> = if vis { ch.iter().copied().collect() } else { BTreeSet::new() };
        if kids != want_kids {
            return Err(Fail::new(format!("{what}: children({}) wrong", hx(h))));
        }
        let parents = reg.parents(*h).hashes();
        let want_parents: BTreeSet<Hash> = m.visible.iter().copied().filter(|p| m.received[p].contains(h)).collect();
        if parents != want_parents {
            return Err(Fail::new(format!("{what}: parents({}) wrong", hx(h))));
        }
    }
    Ok(())
}

fn check_merkle(plan: &Plan, ctx: &Ctx, stats: &mut Stats) -> Result<(), Fail> {
    let mut sim = new_sim::<SMerkle>(plan, &ctx.cfg, stats);
    let n = sim.reps.len();
    let mut was_orphan_then_visible = false;
    let mut orphan_sets: Vec<BTreeSet<Hash>> = vec![BTreeSet::new(); n];
    for step in &plan.steps {
        let ev = sim.step(step);
        let Some(r) = affected(&ev) else { continue };
        let know = sim.reps[r].know;
        let m = MerkleModel::build(&sim.metas, know);
        stats.observations += 1 + m.received.len() as u64;
        if let Err(f) = compare(&sim.reps[r].st, &m, &format!("r{r}")) {
            return Err(fail_with(&sim, stats, f));
        }
        let orphans: BTreeSet<Hash> = m.received.keys().copied().filter(|h| !m.visible.contains(h)).collect();
        if orphan_sets[r].iter().any(|h| m.visible.contains(h)) {
            was_orphan_then_visible = true;
        }
        orphan_sets[r] = orphans;
        // equal received sets => ==
        for q in 0..n {
            if q != r && sim.reps[q].know == know && sim.reps[q].st != sim.reps[r].st {
                return Err(fail_with(&sim, stats, Fail::new(format!("r{r} and r{q} received the same node set but are not ==:\n  {}\n  {}", crate::tree::to_tree(&sim.reps[r].st), crate::tree::to_tree(&sim.reps[q].st)))));
            }
        }
        // writing on top of the heads read replaces them
        if let Event::Edited { op, .. } = &ev {
            if let Sem::Merkle { hash, children } = &sim.metas[*op].sem {
                if sim.metas[*op].call.contains("on top of all heads read") {
                    let heads = sim.reps[r].st.read().hashes();
                    let want: BTreeSet<Hash> = [*hash].into_iter().collect();
                    if heads != want {
                        return Err(fail_with(&sim, stats, Fail::new(format!("r{r}: after writing on top of all heads ({} children) read() is {:?}, expected just the new node", children.len(), heads.iter().map(hx).collect::<Vec<_>>()))));
                    }
                }
            }
        }
    }
    // twin: same set, different order, must be ==
    for r in 0..n {
        let know = sim.reps[r].know;
        if know == 0 {
            continue;
        }
        let mut picks = plan.settle.clone();
        let k = r % picks.len();
        picks.rotate_left(k);
        let twin = sim.replay(know, &picks, Disc::Any);
        if twin != sim.reps[r].st {
            return Err(fail_with(&sim, stats, Fail::new(format!("r{r} is not == to a fresh register that received the same nodes in another order"))));
        }
    }
    let all = MerkleModel::build(&sim.metas, sim.all_bits());
    let fan = all.received.values().any(|c| c.len() >= 2) || all.received.keys().any(|h| all.received.values().filter(|c| c.contains(h)).count() >= 2);
    classify_common(&sim, stats);
    if was_orphan_then_visible {
        stats.class("a node was an orphan and later became visible");
    }
    if was_orphan_then_visible && fan {
        stats.cur_nontrivial = true;
        stats.class("nontrivial");
    }
    finish(&sim, stats);
    Ok(())
}

/// all DAG shapes with n nodes (node i's children are any subset of 0..i), all arrival orders
fn exhaustive(shard: u64, nshards: u64, thorough: bool, st: &mut Stats) -> Result<(), Fail> {
    let nmax = if thorough { 6 } else { 5 };
    for n in 1..=nmax {
        let bits: usize = (0..n).sum();
        let perms = permutations(n);
        for shape in 0..(1u64 << bits) {
            if shape % nshards != shard {
                continue;
            }
            // build nodes
            let reg0: MerkleReg<Vec<u8>> = MerkleReg::new();
            let mut nodes: Vec<Node<Vec<u8>>> = Vec::new();
            let mut hashes: Vec<Hash> = Vec::new();
            let mut b = 0;
            for i in 0..n {
                let mut ch = BTreeSet::new();
                for j in 0..i {
                    if (shape >> b) & 1 == 1 {
                        ch.insert(hashes[j]);
                    }
                    b += 1;
                }
                let node = reg0.write(vec![i as u8, 0xAB, 0xCD, 0xEF], ch);
                hashes.push(node.hash());
                nodes.push(node);
            }
            let metas: Vec<OpMeta> = nodes
                .iter()
                .enumerate()
                .map(|(i, nd)| OpMeta { id: i, author: 0, actor: None, seq: i, deps: 0, sem: Sem::Merkle { hash: hashes[i], children: nd.children.iter().copied().collect() }, call: String::new() })
                .collect();
            let mut canonical: MerkleReg<Vec<u8>> = MerkleReg::new();
            for nd in &nodes {
                canonical.apply(nd.clone());
            }
            for perm in &perms {
                st.cases += 1;
                    crate::engine::beat();
                let mut reg: MerkleReg<Vec<u8>> = MerkleReg::new();
                let mut know: Bits = 0;
                let mut had_orphan = false;
                for &i in perm {
                    reg.apply(nodes[i].clone());
                    know |= bit(i);
                    let m = MerkleModel::build(&metas, know);
                    st.observations += 1;
                    had_orphan |= m.received.len() != m.visible.len();
                    compare(&reg, &m, &format!("DAG shape {shape:#x} ({n} nodes), arrival order {perm:?}"))?;
                }
                if reg != canonical {
                    return Err(Fail::new(format!("DAG shape {shape:#x} ({n} nodes): arrival order {perm:?} gives a state != the in-order state")));
                }
                // split in two halves, merge
                let mut a: MerkleReg<Vec<u8>> = MerkleReg::new();
                let mut bb: MerkleReg<Vec<u8>> = MerkleReg::new();
                for (k, &i) in perm.iter().enumerate() {
                    if k % 2 == 0 {
                        a.apply(nodes[i].clone())
                    } else {
                        bb.apply(nodes[i].clone())
                    }
                }
                a.merge(bb);
                if a != canonical {
                    return Err(Fail::new(format!("DAG shape {shape:#x} ({n} nodes): merging two halves of order {perm:?} != the in-order state")));
                }
                if had_orphan && n >= 3 {
                    st.nontrivial_enumerated += 1;
                    if st.samples.len() < 2 && shape % 97 == 13 {
                        st.samples.push(json!({"nodes": n, "children_bitmap": format!("{shape:#x}"), "arrival_order": perm}));
                    }
                }
            }
        }
    }
    Ok(())
}

fn permutations(n: usize) -> Vec<Vec<usize>> {
    fn go(cur: &mut Vec<usize>, used: &mut Vec<bool>, n: usize, out: &mut Vec<Vec<usize>>) {
        if cur.len() == n {
            out.push(cur.clone());
            return;
        }
        for i in 0..n {
            if !used[i] {
                used[i] = true;
                cur.push(i);
                go(cur, used, n, out);
                cur.pop();
                used[i] = false;
            }
        }
    }
    let mut out = Vec::new();
    go(&mut Vec::new(), &mut vec![false; n], n, &mut out);
    out
}

// ------------------------------------------------------------------------------------------------
// structured generator: random DAGs of 8..=48 nodes with fan-in up to 24 (node i's children are a generated subset of
// earlier nodes), delivered in a generated arrival order (uniform shuffles, reversed, chunk-reversed) to one register
// op by op and to a second one half by ops and half by merge; model compared after every arrival.

#[derive(Clone, Debug, Hash, serde::Serialize, serde::Deserialize)]
pub struct DagCase {
    /// per node: (fan-in wish, selector bits for which earlier nodes)
    nodes: Vec<(u8, u64)>,
    /// arrival order material
    order: Vec<u16>,
    mode: u8,
}

fn dag_strategy() -> proptest::strategy::BoxedStrategy<DagCase> {
    use proptest::prelude::*;
    (proptest::collection::vec((prop_oneof![4 => 0u8..4, 1 => 4u8..25], any::<u64>()), 8..=48), proptest::collection::vec(any::<u16>(), 48..=48), 0u8..4)
        .prop_map(|(nodes, order, mode)| DagCase { nodes, order, mode })
        .boxed()
}

fn check_dag(c: &DagCase, stats: &mut Stats) -> Result<(), Fail> {
    let reg0: MerkleReg<Vec<u8>> = MerkleReg::new();
    let n = c.nodes.len();
    let mut nodes: Vec<Node<Vec<u8>>> = Vec::new();
    let mut hashes: Vec<Hash> = Vec::new();
    for (i, (fan, sel)) in c.nodes.iter().enumerate() {
        let mut ch = BTreeSet::new();
        if i > 0 {
            let want = (*fan as usize).min(i);
            let mut x = *sel;
            for _ in 0..want {
                // biased to recent nodes (heads), sometimes far back
                let j = if x & 1 == 0 { i - 1 - ((x >> 1) as usize % i.min(4)) } else { (x >> 1) as usize % i };
                ch.insert(hashes[j]);
                x = x.rotate_right(7) ^ 0x9e3779b97f4a7c15;
            }
        }
        let node = reg0.write(vec![(i >> 8) as u8, i as u8, 0x5A, 0xA5], ch);
        hashes.push(node.hash());
        nodes.push(node);
    }
    let metas: Vec<OpMeta> = nodes
        .iter()
        .enumerate()
        .map(|(i, nd)| OpMeta { id: i, author: 0, actor: None, seq: i, deps: 0, sem: Sem::Merkle { hash: hashes[i], children: nd.children.iter().copied().collect() }, call: String::new() })
        .collect();
    // arrival order
    let mut order: Vec<usize> = (0..n).collect();
    match c.mode {
        0 => order.reverse(),
        1 => {
            for ch in order.chunks_mut(5) {
                ch.reverse();
            }
        }
        _ => {
            for i in (1..n).rev() {
                let j = idx(c.order[i % c.order.len()].wrapping_add(i as u16 * 977), i + 1);
                order.swap(i, j);
            }
        }
    }
    let mut canonical: MerkleReg<Vec<u8>> = MerkleReg::new();
    for nd in &nodes {
        canonical.apply(nd.clone());
    }
    let mut reg: MerkleReg<Vec<u8>> = MerkleReg::new();
    let mut a: MerkleReg<Vec<u8>> = MerkleReg::new();
    let mut b: MerkleReg<Vec<u8>> = MerkleReg::new();
    let mut know: Bits = 0;
    let mut max_orphans = 0usize;
    for (k, &i) in order.iter().enumerate() {
        reg.apply(nodes[i].clone());
        know |= bit(i);
        let m = MerkleModel::build(&metas, know);
        max_orphans = max_orphans.max(m.received.len() - m.visible.len());
        stats.observations += 1;
        compare(&reg, &m, &format!("random DAG ({n} nodes), after arrival #{k} (node {i})"))?;
        if k % 2 == 0 {
            a.apply(nodes[i].clone())
        } else {
            b.apply(nodes[i].clone())
        }
    }
    if reg != canonical {
        return Err(Fail::new(format!("random DAG ({n} nodes): arrival order {order:?} gives a state != the in-order state")));
    }
    let mut ab = a.clone();
    ab.merge(b.clone());
    let mut ba = b;
    ba.merge(a);
    if ab != canonical || ba != canonical {
        return Err(Fail::new(format!("random DAG ({n} nodes): merging the two interleaved halves != the in-order state")));
    }
    let fan_in = nodes.iter().map(|nd| nd.children.len()).max().unwrap_or(0);
    if fan_in >= 16 {
        stats.class("a node with 16+ children");
    }
    if max_orphans >= 10 {
        stats.class("10+ orphans at once");
    }
    if max_orphans >= 3 && fan_in >= 2 {
        stats.cur_nontrivial = true;
        stats.class("nontrivial");
    }
    if stats.trace {
        stats.samples.push(json!({"nodes": n, "max_fan_in": fan_in, "max_orphans_at_once": max_orphans, "arrival_order": order}));
    }
    Ok(())
}

pub fn property() -> Property {
    let mut jobs: Vec<Box<dyn JobT>> = Vec::new();
    jobs.push(Box::new(EJob {
        label: "MerkleReg/exhaustive".into(),
        scope: "every DAG shape with 1..=5 nodes (node i's children any subset of earlier nodes: 1+2+8+64+1024 shapes) x every arrival order (up to 120), model compared after every arrival, final state == in-order state, and merge of the two interleaved halves == in-order state; thorough: up to 6 nodes (32768 shapes x 720 orders)".into(),
        f: Arc::new(exhaustive),
    }));
    let w = Weights { edit: 36, deliver: 34, redeliver: 8, merge: 12, snapshot: 4, merge_snapshot: 6, save_restore: 0, probe: 0 };
    let pc = PlanCfg::new(w).steps(8, 34).editors(2, 4).observers(0, 1);
    jobs.push(mk_job("MerkleReg/any-order/ops+dups+merges", 18000, 200_000, pc, Ctx::new(Disc::Any).newest(), check_merkle).floor("nontrivial", 0.05).boxed());
    jobs.push(job("MerkleReg/random DAGs up to 48 nodes (fan-in up to 24) x generated arrival orders", 20000, 300_000, dag_strategy, |c: &DagCase, st: &mut Stats| check_dag(c, st)).floor("nontrivial", 0.3).boxed());
    Property {
        id: "C15",
        rule: "(a) Plans of write(value, children) at several replicas with children drawn from the author's heads (all / a subset), non-head known nodes, nodes written elsewhere and not yet received (orphan at origin) and children that never arrive; unique 4-byte values (distinct hashes); nodes delivered in ANY order (newest first biased) with duplicates, merges, stale merges. After every step: read().hashes() = visible nodes no visible node lists as child, num_nodes / num_orphans, node(h) for every received node, children(h), parents(h) vs the least-fixpoint model of the received set; equal received sets => ==; writing on top of all heads read => read() is exactly the new node; at the end every replica == a fresh register fed the same nodes in another order. (b) bounded-exhaustive: every DAG shape up to 5 nodes x every arrival order. Non-trivial = some node was an orphan for >=1 step and later became visible and the DAG has fan-in or fan-out >= 2; distinct = distinct Plan hash / (shape, order).".into(),
        assumptions: vec!["node hashes are distinct (unique fixed-length values keep the children||value hash encoding injective)".into()],
        jobs,
    }
}
