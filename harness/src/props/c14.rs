//! C14 — identifiers form a strict total order that is dense and unique per insert.
use crate::engine::*;
use crdts::Identifier;
use num::{BigInt, BigRational};
use proptest::prelude::*;
use serde_json::json;
use std::cmp::Ordering;
use std::sync::Arc;

pub type Path = Vec<((i64, i64), u8)>;

/// identifiers with arbitrary paths can only be built through serde (the tuple field is private);
/// ratios are given reduced (`BigRational::new` reduces), the only form `between` can produce
pub fn mk(path: &Path) -> Identifier<u8> {
    let v: Vec<(BigRational, u8)> = path.iter().map(|((n, d), m)| (BigRational::new(BigInt::from(*n), BigInt::from(*d)), *m)).collect();
    let text = serde_json::to_string(&v).unwrap();
    serde_json::from_str(&text).expect("identifier deserialises")
}

fn show(id: &Identifier<u8>) -> String {
    format!("{id}")
}

fn path_of(id: &Identifier<u8>) -> Vec<(BigRational, u8)> {
    serde_json::from_value(serde_json::to_value(id).unwrap()).unwrap()
}

/// reference order written independently: lexicographic on (ratio, marker), a strict prefix is GREATER
fn ref_cmp(a: &[(BigRational, u8)], b: &[(BigRational, u8)]) -> Ordering {
    for i in 0.. {
        match (a.get(i), b.get(i)) {
            (Some(x), Some(y)) => {
                let o = x.0.cmp(&y.0).then(x.1.cmp(&y.1));
                if o != Ordering::Equal {
                    return o;
                }
            }
            (None, Some(_)) => return Ordering::Greater,
            (Some(_), None) => return Ordering::Less,
            (None, None) => return Ordering::Equal,
        }
    }
    unreachable!()
}

pub fn check_pair(a: &Identifier<u8>, b: &Identifier<u8>, markers: &[u8]) -> Result<bool, Fail> {
    let o = a.cmp(b);
    if b.cmp(a) != o.reverse() {
        return Err(Fail::new(format!("cmp not antisymmetric: {} vs {}", show(a), show(b))));
    }
    if (o == Ordering::Equal) != (a == b) {
        return Err(Fail::new(format!("cmp inconsistent with ==: {} vs {}", show(a), show(b))));
    }
    if a.partial_cmp(b) != Some(o) {
        return Err(Fail::new("partial_cmp != Some(cmp)"));
    }
    if o != ref_cmp(&path_of(a), &path_of(b)) {
        return Err(Fail::new(format!("cmp({}, {}) = {o:?} differs from the lexicographic/prefix reference order", show(a), show(b))));
    }
    if a.cmp(a) != Ordering::Equal {
        return Err(Fail::new("cmp not reflexive"));
    }
    if o == Ordering::Equal {
        return Ok(false);
    }
    let (lo, hi) = if o == Ordering::Less { (a, b) } else { (b, a) };
    let mut mids = Vec::new();
    for &m in markers {
        let mid = Identifier::between(Some(lo), Some(hi), m);
        if !(lo < &mid && &mid < hi) {
            return Err(Fail::new(format!("between({}, {}, {m}) = {} is not strictly between", show(lo), show(hi), show(&mid))));
        }
        let sym = Identifier::between(Some(hi), Some(lo), m);
        if !(lo < &sym && &sym < hi) {
            return Err(Fail::new(format!("between(high, low) = {} is not strictly between {} and {}", show(&sym), show(lo), show(hi))));
        }
        if *mid.value() != m {
            return Err(Fail::new(format!("between(.., {m}) does not end in its marker: {}", show(&mid))));
        }
        mids.push(mid);
    }
    for i in 0..mids.len() {
        for j in 0..i {
            if markers[i] != markers[j] && mids[i] == mids[j] {
                return Err(Fail::new(format!("distinct markers {} and {} give the same identifier {}", markers[i], markers[j], show(&mids[i]))));
            }
        }
    }
    // does the pair share a non-empty prefix or an equal rational at the fork?
    let (pa, pb) = (path_of(a), path_of(b));
    Ok(pa[0].0 == pb[0].0)
}

pub fn check_one_sided(x: &Identifier<u8>, markers: &[u8]) -> Result<(), Fail> {
    for &m in markers {
        let above = Identifier::between(Some(x), None, m);
        if !(&above > x) {
            return Err(Fail::new(format!("between({}, None, {m}) = {} is not above", show(x), show(&above))));
        }
        let below = Identifier::between(None, Some(x), m);
        if !(&below < x) {
            return Err(Fail::new(format!("between(None, {}, {m}) = {} is not below", show(x), show(&below))));
        }
        if *above.value() != m || *below.value() != m {
            return Err(Fail::new("one-sided between does not end in its marker"));
        }
    }
    let first = Identifier::between(None, None, 7u8);
    if *first.value() != 7 {
        return Err(Fail::new("between(None, None, m) does not carry its marker"));
    }
    Ok(())
}

fn all_paths(depth: usize) -> Vec<Path> {
    let rats: [(i64, i64); 4] = [(-1, 1), (0, 1), (1, 2), (1, 1)];
    let mut nodes = Vec::new();
    for r in rats {
        for m in 0..3u8 {
            nodes.push((r, m));
        }
    }
    let mut out: Vec<Path> = Vec::new();
    let mut cur: Vec<Path> = vec![vec![]];
    for _ in 0..depth {
        let mut next = Vec::new();
        for p in &cur {
            for n in &nodes {
                let mut q = p.clone();
                q.push(*n);
                next.push(q);
            }
        }
        out.extend(next.iter().cloned());
        cur = next;
    }
    out
}

fn node_strategy() -> impl Strategy<Value = ((i64, i64), u8)> {
    // biased to equal rationals and neighbouring markers
    let rat = prop_oneof![4 => (0i64..2, 1i64..2), 3 => (-2i64..3, 1i64..4), 1 => (-1000i64..1000, 1i64..50)];
    (rat, prop_oneof![4 => 0u8..4, 1 => any::<u8>()])
}

fn path_strategy() -> impl Strategy<Value = Path> {
    proptest::collection::vec(node_strategy(), 1..7)
}

#[derive(Clone, Debug, Hash, serde::Serialize, serde::Deserialize)]
pub struct IdCase {
    a: Path,
    b: Path,
    c: Path,
    markers: Vec<u8>,
    /// how much of `a` is copied as a prefix into b and c
    share_b: u8,
    share_c: u8,
}

fn with_prefix(base: &Path, other: &Path, share: u8) -> Path {
    let k = (share as usize) % (base.len() + 1);
    let mut p: Path = base[..k].to_vec();
    p.extend(other.iter().cloned());
    p.truncate(8);
    p
}

pub fn property() -> Property {
    let mut jobs: Vec<Box<dyn JobT>> = Vec::new();
    jobs.push(Box::new(EJob {
        label: "Identifier/exhaustive".into(),
        scope: "all identifier paths of depth 1..=2 over rationals {-1,0,1/2,1} x markers {0,1,2} (156 identifiers): all 24336 ordered pairs x markers {0,1,2,3} (total order vs reference, density both argument orders, marker uniqueness), one-sided between, transitivity on all triples of the depth<=2 set restricted to 60 representatives; thorough: depth 1..=3 (1884 identifiers, 3.5M pairs)".into(),
        f: Arc::new(|shard, n, thorough, st: &mut Stats| {
            let paths = all_paths(if thorough { 3 } else { 2 });
            let ids: Vec<Identifier<u8>> = paths.iter().map(mk).collect();
            let markers = [0u8, 1, 2, 3];
            for (i, a) in ids.iter().enumerate() {
                if (i as u64) % n != shard {
                    continue;
                }
                check_one_sided(a, &markers)?;
                for (j, b) in ids.iter().enumerate() {
                    st.cases += 1;
                    crate::engine::beat();
                    st.observations += 1;
                    let nt = check_pair(a, b, &markers)?;
                    if nt {
                        st.nontrivial_enumerated += 1;
                        if st.samples.len() < 2 && i % 37 == 5 && j % 11 == 3 {
                            st.samples.push(json!({"low/high": [show(a), show(b)], "markers": markers}));
                        }
                    }
                }
            }
            // transitivity on triples of a representative subset
            let reps: Vec<&Identifier<u8>> = ids.iter().step_by((ids.len() / 60).max(1)).collect();
            for (i, a) in reps.iter().enumerate() {
                if (i as u64) % n != shard {
                    continue;
                }
                for b in &reps {
                    for c in &reps {
                        st.observations += 1;
                        if a <= b && b <= c && !(a <= c) {
                            return Err(Fail::new(format!("cmp not transitive: {} {} {}", show(a), show(b), show(c))));
                        }
                    }
                }
            }
            Ok(())
        }),
    }));
    jobs.push(
        job(
            "Identifier/random",
            300_000,
            1_000_000,
            || strat((path_strategy(), path_strategy(), path_strategy(), proptest::collection::vec(prop_oneof![3 => 0u8..5, 1 => any::<u8>()], 1..4), any::<u8>(), any::<u8>()).prop_map(|(a, b, c, markers, share_b, share_c)| IdCase { a, b, c, markers, share_b, share_c })),
            |t: &IdCase, st: &mut Stats| {
                let pa = t.a.clone();
                let pb = with_prefix(&t.a, &t.b, t.share_b);
                let pc = with_prefix(&pb, &t.c, t.share_c);
                let (a, b, c) = (mk(&pa), mk(&pb), mk(&pc));
                let mut nt = check_pair(&a, &b, &t.markers)?;
                nt |= check_pair(&b, &c, &t.markers)?;
                nt |= check_pair(&a, &c, &t.markers)?;
                check_one_sided(&a, &t.markers)?;
                st.observations += 4;
                // transitivity
                let mut v = [&a, &b, &c];
                v.sort();
                if !(v[0] <= v[1] && v[1] <= v[2] && v[0] <= v[2]) {
                    return Err(Fail::new("sort produced a non-chain: cmp not transitive"));
                }
                for (x, y, z) in [(&a, &b, &c), (&a, &c, &b), (&b, &a, &c), (&b, &c, &a), (&c, &a, &b), (&c, &b, &a)] {
                    if x <= y && y <= z && !(x <= z) {
                        return Err(Fail::new(format!("cmp not transitive: {} {} {}", show(x), show(y), show(z))));
                    }
                }
                // a chain of inserts between the same neighbours stays strictly ordered (depth grows)
                if a != b {
                    let (lo, hi) = if a < b { (a.clone(), b.clone()) } else { (b.clone(), a.clone()) };
                    let mut left = lo.clone();
                    for (k, m) in t.markers.iter().cycle().take(6).enumerate() {
                        let mid = Identifier::between(Some(&left), Some(&hi), m.wrapping_add(k as u8));
                        if !(left < mid && mid < hi) {
                            return Err(Fail::new(format!("repeated between: {} not strictly between {} and {}", show(&mid), show(&left), show(&hi))));
                        }
                        left = mid;
                    }
                }
                if nt {
                    st.cur_nontrivial = true;
                    st.class("nontrivial");
                }
                if st.trace {
                    st.samples.push(json!({"a": show(&a), "b": show(&b), "c": show(&c), "markers": t.markers}));
                }
                Ok(())
            },
        )
        .decoder(|d: &[u8]| {
            if d.len() < 8 {
                return None;
            }
            let mut r = crate::plan::Reader::new(d);
            let mut path = |r: &mut crate::plan::Reader| -> Path {
                let n = 1 + (r.u8() % 6) as usize;
                (0..n)
                    .map(|_| {
                        let k = r.u8();
                        let rat = match k % 4 {
                            0 => ((k / 4 % 2) as i64, 1),
                            1 | 2 => ((r.u8() % 5) as i64 - 2, 1 + (r.u8() % 3) as i64),
                            _ => (r.u16() as i64 - 1000, 1 + (r.u8() % 49) as i64),
                        };
                        (rat, r.u8() % 5)
                    })
                    .collect()
            };
            let a = path(&mut r);
            let b = path(&mut r);
            let c = path(&mut r);
            let markers: Vec<u8> = (0..1 + (r.u8() % 3)).map(|_| r.u8() % 6).collect();
            Some(IdCase { a, b, c, markers, share_b: r.u8(), share_c: r.u8() })
        })
        .floor("nontrivial", 0.2)
        .boxed(),
    );
    Property {
        id: "C14",
        rule: "(a) bounded-exhaustive over all identifier paths of depth <=2 (thorough <=3) on rationals {-1,0,1/2,1} x markers {0,1,2}; (b) proptest: depth <=8 paths biased to equal rationals, shared prefixes (b extends a prefix of a, c a prefix of b), prefix-related pairs and markers between sibling markers, plus chains of repeated between() in one gap. Oracle: cmp is antisymmetric, reflexive, consistent with ==, equals an independently written lexicographic/prefix reference order, transitive on triples; for distinct low<high and every marker m: low < between(low,high,m) < high in both argument orders, the result ends in m, distinct markers give distinct identifiers; one-sided between is strictly beyond its bound. Non-trivial = the pair shares its first rational (equal-rational siblings / shared prefix); distinct = distinct pair / generated case.".into(),
        assumptions: vec!["identifiers are non-empty paths (value() of an empty path is undefined in the crate)".into(), "paths are injected through serde because the constructor is private; ratios are reduced".into()],
        jobs,
    }
}
