//! C12 — List: causal delivery yields one global element order at every replica.
use super::common::*;
use super::generic::*;
use crate::engine::*;
use crate::plan::*;
use crate::sim::*;
use crate::subject::lists::*;
use std::collections::{BTreeMap, BTreeSet, HashSet};

fn check_list_order(plan: &Plan, ctx: &Ctx, stats: &mut Stats) -> Result<(), Fail> {
    let mut sim = new_sim::<SList>(plan, &ctx.cfg, stats);
    let n = sim.reps.len();
    // global "x before y" relation collected from every replica at every step
    let mut before: HashSet<(u32, u32)> = HashSet::new();
    let mut seqs: Vec<Vec<u32>> = vec![Vec::new(); n];
    // per insert op: the neighbours its origin saw (prev, next) -- for the non-trivial rule
    let mut gaps: BTreeMap<usize, (Option<u32>, Option<u32>)> = BTreeMap::new();
    let mut cross_compared = false;
    for step in &plan.steps {
        let ev = sim.step(step);
        let Some(r) = affected(&ev) else { continue };
        let got = SList::observe(&sim.reps[r].st);
        let want = SList::predict(&sim.metas, sim.reps[r].know).unwrap();
        stats.observations += 2;
        let d = diff_on_model(&got, &want);
        if let Err(f) = judge(&sim, stats, ctx, sim.reps[r].know, &lineage(&sim, r), &d, "List membership differs from inserted-and-known minus deleted-and-known (or an element repeats)", r, &got, &want) {
            return Err(fail_with(&sim, stats, f));
        }
        let seq = list_seq(&sim.reps[r].st);
        if let Event::Edited { op, .. } = &ev {
            if let Sem::ListIns { tag, .. } = sim.metas[*op].sem {
                if let Some(p) = seq.iter().position(|t| *t == tag) {
                    gaps.insert(*op, (if p > 0 { Some(seq[p - 1]) } else { None }, seq.get(p + 1).copied()));
                }
            }
        }
        // (ii) equal knowledge => equal sequence
        for q in 0..n {
            if q != r && sim.reps[q].know == sim.reps[r].know && seqs[q] != seq {
                let f = Fail::new(format!("replicas r{r} and r{q} applied the same ops but read {seq:?} vs {:?}", seqs[q]));
                return Err(fail_with(&sim, stats, f));
            }
            if q != r && sim.reps[q].know != sim.reps[r].know && sim.reps[q].know != 0 && !seq.is_empty() && !seqs[q].is_empty() {
                cross_compared = true;
            }
        }
        // (iii) the relative order of two elements never differs, anywhere, ever
        for i in 0..seq.len() {
            for j in i + 1..seq.len() {
                stats.observations += 1;
                if before.contains(&(seq[j], seq[i])) {
                    let f = Fail::new(format!("element {} is before {} at r{r} now, but {} was before {} at some replica earlier: no single global order exists (r{r} reads {seq:?})", seq[i], seq[j], seq[j], seq[i]));
                    return Err(fail_with(&sim, stats, f));
                }
                before.insert((seq[i], seq[j]));
            }
        }
        seqs[r] = seq;
    }
    // acyclicity of the collected relation (a cycle through three replicas' views)
    let tags: BTreeSet<u32> = before.iter().flat_map(|(a, b)| [*a, *b]).collect();
    let mut indeg: BTreeMap<u32, usize> = tags.iter().map(|t| (*t, 0)).collect();
    for (_, b) in &before {
        *indeg.get_mut(b).unwrap() += 1;
    }
    let mut ready: Vec<u32> = indeg.iter().filter(|(_, d)| **d == 0).map(|(t, _)| *t).collect();
    let mut done = 0;
    while let Some(t) = ready.pop() {
        done += 1;
        for (a, b) in &before {
            if *a == t {
                let d = indeg.get_mut(b).unwrap();
                *d -= 1;
                if *d == 0 {
                    ready.push(*b);
                }
            }
        }
    }
    if done != tags.len() {
        return Err(fail_with(&sim, stats, Fail::new("the 'before' relation observed across replicas contains a cycle: no single global order exists")));
    }
    // (iv) settle: deliver everything in causal order; all replicas read the same sequence,
    // which must extend the collected relation
    let mut pi = 0;
    for r in 0..n {
        loop {
            let el: Vec<usize> = (0..sim.ops.len()).filter(|o| sim.eligible(r, *o, Disc::Causal)).collect();
            if el.is_empty() {
                break;
            }
            let op = el[idx(plan.settle[pi % plan.settle.len()], el.len())];
            pi += 1;
            sim.deliver(r, op);
            if sim.trace {
                sim.log.push(format!("settle: r{r} <- op#{op}"));
            }
        }
    }
    let s0 = list_seq(&sim.reps[0].st);
    for r in 1..n {
        if list_seq(&sim.reps[r].st) != s0 {
            return Err(fail_with(&sim, stats, Fail::new(format!("after everything was delivered r{r} reads {:?} but r0 reads {s0:?}", list_seq(&sim.reps[r].st)))));
        }
    }
    for i in 0..s0.len() {
        for j in i + 1..s0.len() {
            if before.contains(&(s0[j], s0[i])) {
                return Err(fail_with(&sim, stats, Fail::new(format!("final sequence {s0:?} reverses a pair ({}, {}) observed earlier", s0[j], s0[i]))));
            }
        }
    }
    // non-trivial: concurrent same-gap inserts by different actors, a delete of a remote element,
    // and a cross-replica comparison between different non-empty knowledge sets
    let mut same_gap = false;
    let ids: Vec<usize> = gaps.keys().copied().collect();
    for (x, i) in ids.iter().enumerate() {
        for j in &ids[..x] {
            if concurrent(&sim.metas, *i, *j) && gaps[i] == gaps[j] {
                same_gap = true;
            }
        }
    }
    classify_common(&sim, stats);
    let depth = sim.reps.iter().map(|r| max_depth(&r.st)).max().unwrap_or(0);
    if depth >= 4 {
        stats.class("identifier path depth >= 4");
    }
    if depth >= 7 {
        stats.class("identifier path depth >= 7");
    }
    if sim.reps.iter().any(|r| r.st.len() >= 25) {
        stats.class("list of 25+ elements");
    }
    if same_gap {
        stats.class("concurrent inserts into the same gap");
    }
    if same_gap && has_remote_observed_remove(&sim.metas) && cross_compared {
        stats.cur_nontrivial = true;
        stats.class("nontrivial");
    }
    finish(&sim, stats);
    Ok(())
}

// ------------------------------------------------------------------------------------------------
// structured generator: nested "duels".  Identifier paths only grow when two replicas insert concurrently into
// the same gap and a later insert goes between the two siblings; random histories practically never nest this more
// than twice, so this generator builds the nesting on purpose: in every round 2-3 fully synchronised editors insert
// (each from its own real read) into the gap between the two newest adjacent elements (or right before / after the
// newest one), then exchange the ops; observers receive each round's ops in a generated order, possibly one round
// late (always causally), and a round may also delete one of the newest elements.

#[derive(Clone, Debug, Hash, serde::Serialize, serde::Deserialize)]
pub struct Round {
    /// which editors insert this round (bitmask over 3 editors; at least two are forced)
    who: u8,
    /// per editor: 0/1 = between the two newest adjacent elements, 2 = right before the newest, 3 = right after it
    gap: [u8; 3],
    /// delivery order choices for editors and observers
    order: u16,
    /// observers lag by one round when the bit is set
    lag: u8,
    /// 0 = no delete, otherwise editor (d % 3) deletes the newest element after the exchange
    del: u8,
}

#[derive(Clone, Debug, Hash, serde::Serialize, serde::Deserialize)]
pub struct DuelCase {
    actors: u16,
    rounds: Vec<Round>,
}

fn duel_strategy() -> proptest::strategy::BoxedStrategy<DuelCase> {
    use proptest::prelude::*;
    let g = || prop_oneof![5 => Just(0u8), 1 => Just(2u8), 1 => Just(3u8)];
    let round = (any::<u8>(), [g(), g(), g()], any::<u16>(), 0u8..4, prop_oneof![6 => Just(0u8), 1 => 1u8..4]).prop_map(|(who, gap, order, lag, del)| Round { who, gap, order, lag, del });
    (any::<u16>(), proptest::collection::vec(round, 3..=14)).prop_map(|(actors, rounds)| DuelCase { actors, rounds }).boxed()
}

struct OrderOracle {
    before: HashSet<(u32, u32)>,
    seqs: Vec<Vec<u32>>,
}

impl OrderOracle {
    fn observe(&mut self, sim: &Sim<SList>, r: usize, stats: &mut Stats) -> Result<(), Fail> {
        let got = SList::observe(&sim.reps[r].st);
        let want = SList::predict(&sim.metas, sim.reps[r].know).unwrap();
        stats.observations += 2;
        let d = diff_on_model(&got, &want);
        if !d.is_empty() {
            return Err(Fail::new(mismatch_msg("List membership / API consistency / identifier order", r, &d, &got, &want)));
        }
        let seq = list_seq(&sim.reps[r].st);
        for q in 0..sim.reps.len() {
            if q != r && sim.reps[q].know == sim.reps[r].know && self.seqs[q] != seq {
                return Err(Fail::new(format!("replicas r{r} and r{q} applied the same ops but read {seq:?} vs {:?}", self.seqs[q])));
            }
        }
        for i in 0..seq.len() {
            for j in i + 1..seq.len() {
                stats.observations += 1;
                if self.before.contains(&(seq[j], seq[i])) {
                    return Err(Fail::new(format!("element {} is before {} at r{r} now, but the opposite order was read earlier somewhere: no single global order exists (r{r} reads {seq:?})", seq[i], seq[j])));
                }
                self.before.insert((seq[i], seq[j]));
            }
        }
        self.seqs[r] = seq;
        Ok(())
    }
}

fn check_list_duels(case: &DuelCase, stats: &mut Stats) -> Result<(), Fail> {
    use crdts::list::Op as LOp;
    let plan = Plan { editors: 3, observers: 2, steps: Vec::new(), settle: vec![0; 8], actors: case.actors };
    let cfg = RunCfg::new(Disc::Causal);
    let mut sim = new_sim::<SList>(&plan, &cfg, stats);
    let n = sim.reps.len();
    let mut oracle = OrderOracle { before: HashSet::new(), seqs: vec![Vec::new(); n] };
    let mut pending_for_observers: Vec<usize> = Vec::new();
    let mut tag = 0u32;
    let mut run = |sim: &mut Sim<SList>, oracle: &mut OrderOracle, stats: &mut Stats| -> Result<(), Fail> {
        for (ri, round) in case.rounds.iter().enumerate() {
            // editors are fully synchronised here: each inserts from its own read
            let mut who: Vec<usize> = (0..3).filter(|e| round.who & (1 << e) != 0).collect();
            if who.len() < 2 {
                who = vec![ri % 3, (ri + 1) % 3];
            }
            let mut new_ops: Vec<usize> = Vec::new();
            for &e in &who {
                let st = &sim.reps[e].st;
                let seq = list_seq(st);
                let newest = seq.iter().enumerate().max_by_key(|(_, t)| **t).map(|(p, _)| p);
                let i = match newest {
                    None => 0,
                    Some(p) => {
                        // the neighbour of the newest element that is itself the second newest => the newest gap
                        let left_newer = p > 0 && (p + 1 >= seq.len() || seq[p - 1] > seq[p + 1]);
                        match round.gap[e] {
                            0 | 1 => {
                                if left_newer {
                                    p
                                } else {
                                    p + 1
                                }
                            }
                            2 => p,
                            _ => p + 1,
                        }
                    }
                };
                tag += 1;
                let actor = sim.reps[e].actor.unwrap();
                let op: LOp<u32, u8> = st.insert_index(i, tag, actor);
                let d = op.dot();
                let call = format!("insert_index({i}, {tag}) -> id {}", op.id());
                let id = sim.inject(e, op, Sem::ListIns { tag, dot: (d.actor, d.counter) }, call);
                new_ops.push(id);
                oracle.observe(sim, e, stats)?;
            }
            // exchange among the editors in a generated order
            let mut bits = round.order;
            for e in 0..3 {
                let mut todo: Vec<usize> = new_ops.iter().copied().filter(|o| !has(sim.reps[e].know, *o)).collect();
                if bits & 1 == 1 {
                    todo.reverse();
                }
                bits >>= 1;
                for o in todo {
                    sim.deliver(e, o);
                    if sim.trace {
                        sim.log.push(format!("r{e} <- op#{o}"));
                    }
                    oracle.observe(sim, e, stats)?;
                }
            }
            // optional delete of the newest element by one editor, delivered to the other editors
            if round.del != 0 {
                let e = (round.del % 3) as usize;
                let st = &sim.reps[e].st;
                let seq = list_seq(st);
                if let Some((p, t)) = seq.iter().enumerate().max_by_key(|(_, t)| **t).map(|(p, t)| (p, *t)) {
                    let actor = sim.reps[e].actor.unwrap();
                    if let Some(op) = st.delete_index(p, actor) {
                        let d = op.dot();
                        let id = sim.inject(e, op, Sem::ListDel { tag: t, dot: (d.actor, d.counter) }, format!("delete_index({p}) [elem {t}]"));
                        new_ops.push(id);
                        oracle.observe(sim, e, stats)?;
                        for q in 0..3 {
                            if q != e {
                                sim.deliver(q, id);
                                if sim.trace {
                                    sim.log.push(format!("r{q} <- op#{id}"));
                                }
                                oracle.observe(sim, q, stats)?;
                            }
                        }
                    }
                }
            }
            // observers: first what they still miss from earlier rounds (causal), then this round unless lagging
            pending_for_observers.extend(new_ops.iter().copied());
            for (k, obs) in (3..n).enumerate() {
                let lagging = round.lag & (1 << k) != 0;
                let mut todo: Vec<usize> = pending_for_observers.iter().copied().filter(|o| !has(sim.reps[obs].know, *o)).collect();
                if lagging {
                    todo.retain(|o| !new_ops.contains(o));
                }
                // a generated linear extension of causality: repeatedly pick among the eligible ones
                let mut pick = round.order.rotate_left(3 * (k as u32 + 1));
                while !todo.is_empty() {
                    let el: Vec<usize> = todo.iter().copied().filter(|o| sim.eligible(obs, *o, Disc::Causal)).collect();
                    if el.is_empty() {
                        break;
                    }
                    let o = el[idx(pick, el.len())];
                    pick = pick.rotate_left(5) ^ 0x9e37;
                    sim.deliver(obs, o);
                    if sim.trace {
                        sim.log.push(format!("r{obs} <- op#{o}"));
                    }
                    todo.retain(|x| *x != o);
                    oracle.observe(sim, obs, stats)?;
                }
            }
        }
        // settle the observers
        for obs in 3..n {
            loop {
                let el: Vec<usize> = (0..sim.ops.len()).filter(|o| sim.eligible(obs, *o, Disc::Causal)).collect();
                if el.is_empty() {
                    break;
                }
                sim.deliver(obs, el[0]);
                oracle.observe(sim, obs, stats)?;
            }
        }
        let s0 = list_seq(&sim.reps[0].st);
        for r in 1..n {
            if list_seq(&sim.reps[r].st) != s0 {
                return Err(Fail::new(format!("after everything was delivered r{r} reads {:?} but r0 reads {s0:?}", list_seq(&sim.reps[r].st))));
            }
        }
        Ok(())
    };
    let res = run(&mut sim, &mut oracle, stats);
    if let Err(f) = res {
        return Err(fail_with(&sim, stats, f));
    }
    let depth = sim.reps.iter().map(|r| max_depth(&r.st)).max().unwrap_or(0);
    for d in [3usize, 5, 7, 9] {
        if depth >= d {
            stats.class(&format!("identifier path depth >= {d}"));
        }
    }
    if depth >= 3 {
        stats.cur_nontrivial = true;
        stats.class("nontrivial");
    }
    finish(&sim, stats);
    Ok(())
}

pub fn property() -> Property {
    let mut jobs: Vec<Box<dyn JobT>> = Vec::new();
    let w = Weights { edit: 45, deliver: 40, redeliver: 10, merge: 0, snapshot: 0, merge_snapshot: 0, save_restore: 0, probe: 0 };
    let pc = PlanCfg::new(w).steps(8, 40).editors(2, 5).observers(0, 1);
    jobs.push(mk_job("List<u32,u8>/causal/ops+dups (delayed delivery)", 80000, 400_000, pc, Ctx::new(Disc::Causal), check_list_order).floor("nontrivial", 0.05).boxed());
    jobs.push(job("List<u32,u8>/nested duels (structured: deep identifier paths)", 30000, 300_000, duel_strategy, |c: &DuelCase, st: &mut Stats| check_list_duels(c, st)).floor("nontrivial", 0.3).boxed());
    Property {
        id: "C12",
        rule: "Plans of insert_index (any index incl. beyond len), append and delete_index with unique element tags at 2-4 actors, with DELAYED causal delivery (so 3+ actors insert into the same gap concurrently) and duplicates. Oracles after every step: membership = inserted-and-known minus deleted-and-known, each element once; replicas with equal knowledge read the same sequence; the 'x before y' relation collected from every replica at every step is antisymmetric and (at the end) acyclic, i.e. one global total order exists; after a final causal settle all replicas read the same sequence and it extends the collected relation. Also API consistency of read/iter/iter_entries/position/position_entry/get/first/last/len. Non-trivial = two concurrent inserts by different replicas whose origins saw the same (prev,next) neighbours, a delete of a remotely inserted element, and replicas with different non-empty knowledge compared; distinct = distinct Plan hash.".into(),
        assumptions: vec!["delivery is causal (the documented List contract); each actor confined to one replica".into()],
        jobs,
    }
}
