//! C12 — List: causal delivery yields one global element order at every replica.
use super::common::*;
use super::generic::*;
use crate::engine::*;
use crate::plan::*;
use crate::sim::*;
use crate::subject::lists::*;
use std::collections::{BTreeMap, BTreeSet, HashSet};

fn check_list_order(plan: &Plan, ctx: &Ctx, stats: &mut Stats) -> Result<(), Fail> {
    let mut sim = new_sim::<SList>(plan, &ctx.cfg, stats);
    let n = sim.reps.len();
    // global "x before y" relation collected from every replica at every step
    let mut before: HashSet<(u32, u32)> = HashSet::new();
    let mut seqs: Vec<Vec<u32>> = vec![Vec::new(); n];
    // per insert op: the neighbours its origin saw (prev, next) -- for the non-trivial rule
    let mut gaps: BTreeMap<usize, (Option<u32>, Option<u32>)> = BTreeMap::new();
    let mut cross_compared = false;
    for step in &plan.steps {
        let ev = sim.step(step);
        let Some(r) = affected(&ev) else { continue };
        let got = SList::observe(&sim.reps[r].st);
        let want = SList::predict(&sim.metas, sim.reps[r].know).unwrap();
        stats.observations += 2;
        let d = diff_on_model(&got, &want);
        if let Err(f) = judge(&sim, stats, ctx, sim.reps[r].know, &lineage(&sim, r), &d, "List membership differs from inserted-and-known minus deleted-and-known (or an element repeats)", r, &got, &want) {
            return Err(fail_with(&sim, stats, f));
        }
        let seq = list_seq(&sim.reps[r].st);
        if let Event::Edited { op, .. } = &ev {
            if let Sem::ListIns { tag, .. } = sim.metas[*op].sem {
                if let Some(p) = seq.iter().position(|t| *t == tag) {
                    gaps.insert(*op, (if p > 0 { Some(seq[p - 1]) } else { None }, seq.get(p + 1).copied()));
                }
            }
        }
        // (ii) equal knowledge => equal sequence
        for q in 0..n {
            if q != r && sim.reps[q].know == sim.reps[r].know && seqs[q] != seq {
                let f = Fail::new(format!("replicas r{r} and r{q} applied the same ops but read {seq:?} vs {:?}", seqs[q]));
                return Err(fail_with(&sim, stats, f));
            }
            if q != r && sim.reps[q].know != sim.reps[r].know && sim.reps[q].know != 0 && !seq.is_empty() && !seqs[q].is_empty() {
                cross_compared = true;
            }
        }
        // (iii) the relative order of two elements never differs, anywhere, ever
        for i in 0..seq.len() {
            for j in i + 1..seq.len() {
                stats.observations += 1;
                if before.contains(&(seq[j], seq[i])) {
                    let f = Fail::new(format!("element {} is before {} at r{r} now, but {} was before {} at some replica earlier: no single global order exists (r{r} reads {seq:?})", seq[i], seq[j], seq[j], seq[i]));
                    return Err(fail_with(&sim, stats, f));
                }
                before.insert((seq[i], seq[j]));
            }
        }
        seqs[r] = seq;
    }
    // acyclicity of the collected relation (a cycle through three replicas' views)
    let tags: BTreeSet<u32> = before.iter().flat_map(|(a, b)| [*a, *b]).collect();
    let mut indeg: BTreeMap<u32, usize> = tags.iter().map(|t| (*t, 0)).collect();
    for (_, b) in &before {
        *indeg.get_mut(b).unwrap() += 1;
    }
    let mut ready: Vec<u32> = indeg.iter().filter(|(_, d)| **d == 0).map(|(t, _)| *t).collect();
    let mut done = 0;
    while let Some(t) = ready.pop() {
        done += 1;
        for (a, b) in &before {
            if *a == t {
                let d = indeg.get_mut(b).unwrap();
                *d -= 1;
                if *d == 0 {
                    ready.push(*b);
                }
            }
        }
    }
    if done != tags.len() {
        return Err(fail_with(&sim, stats, Fail::new("the 'before' relation observed across replicas contains a cycle: no single global order exists")));
    }
    // (iv) settle: deliver everything in causal order; all replicas read the same sequence,
    // which must extend the collected relation
    let mut pi = 0;
    for r in 0..n {
        loop {
            let el: Vec<usize> = (0..sim.ops.len()).filter(|o| sim.eligible(r, *o, Disc::Causal)).collect();
            if el.is_empty() {
                break;
            }
            let op = el[idx(plan.settle[pi % plan.settle.len()], el.len())];
            pi += 1;
            sim.deliver(r, op);
            if sim.trace {
                sim.log.push(format!("settle: r{r} <- op#{op}"));
            }
        }
    }
    let s0 = list_seq(&sim.reps[0].st);
    for r in 1..n {
        if list_seq(&sim.reps[r].st) != s0 {
            return Err(fail_with(&sim, stats, Fail::new(format!("after everything was delivered r{r} reads {:?} but r0 reads {s0:?}", list_seq(&sim.reps[r].st)))));
        }
    }
    for i in 0..s0.len() {
        for j in i + 1..s0.len() {
            if before.contains(&(s0[j], s0[i])) {
                return Err(fail_with(&sim, stats, Fail::new(format!("final sequence {s0:?} reverses a pair ({}, {}) observed earlier", s0[j], s0[i]))));
            }
        }
    }
    // non-trivial: concurrent same-gap inserts by different actors, a delete of a remote element,
    // and a cross-replica comparison between different non-empty knowledge sets
    let mut same_gap = false;
    let ids: Vec<usize> = gaps.keys().copied().collect();
    for (x, i) in ids.iter().enumerate() {
        for j in &ids[..x] {
            if concurrent(&sim.metas, *i, *j) && gaps[i] == gaps[j] {
                same_gap = true;
            }
        }
    }
    classify_common(&sim, stats);
    if same_gap {
        stats.class("concurrent inserts into the same gap");
    }
    if same_gap && has_remote_observed_remove(&sim.metas) && cross_compared {
        stats.cur_nontrivial = true;
        stats.class("nontrivial");
    }
    finish(&sim, stats);
    Ok(())
}

pub fn property() -> Property {
    let mut jobs: Vec<Box<dyn JobT>> = Vec::new();
    let w = Weights { edit: 45, deliver: 40, redeliver: 10, merge: 0, snapshot: 0, merge_snapshot: 0, save_restore: 0, probe: 0 };
    let pc = PlanCfg::new(w).steps(8, 40).editors(2, 5).observers(0, 1);
    jobs.push(mk_job("List<u32,u8>/causal/ops+dups (delayed delivery)", 80000, 400_000, pc, Ctx::new(Disc::Causal), check_list_order).floor("nontrivial", 0.05).boxed());
    Property {
        id: "C12",
        rule: "Plans of insert_index (any index incl. beyond len), append and delete_index with unique element tags at 2-4 actors, with DELAYED causal delivery (so 3+ actors insert into the same gap concurrently) and duplicates. Oracles after every step: membership = inserted-and-known minus deleted-and-known, each element once; replicas with equal knowledge read the same sequence; the 'x before y' relation collected from every replica at every step is antisymmetric and (at the end) acyclic, i.e. one global total order exists; after a final causal settle all replicas read the same sequence and it extends the collected relation. Also API consistency of read/iter/iter_entries/position/position_entry/get/first/last/len. Non-trivial = two concurrent inserts by different replicas whose origins saw the same (prev,next) neighbours, a delete of a remotely inserted element, and replicas with different non-empty knowledge compared; distinct = distinct Plan hash.".into(),
        assumptions: vec!["delivery is causal (the documented List contract); each actor confined to one replica".into()],
        jobs,
    }
}
