//! C08 — overtaking removes are deferred, never lost: per-actor delivery order suffices.
use super::exempt::Class;
use super::generic::*;
use crate::engine::*;
use crate::plan::*;
use crate::sim::*;
use crate::subject::{lists::*, map::*, merkle::*, mvreg::*, orswot::*, simple::*};

fn add<S: Subject>(jobs: &mut Vec<Box<dyn JobT>>, variant: &str, disc: Disc, w: Weights, closed_edits: bool, ex: &[Class], q: u64, t: u64, floor: f64) {
    let pc = PlanCfg::new(w).steps(6, 30).observers(0, 2);
    let pc = pc.long_share(S::LONG);
    let mut ctx = Ctx::new(disc).ex(ex).newest();
    if closed_edits {
        ctx = ctx.closed_edits();
    }
    jobs.push(mk_job(format!("{}/{:?}/{variant}", S::name(), disc), q, t, pc, ctx, check_overtake::<S>).floor("nontrivial", floor).boxed());
}

// ------------------------------------------------------------------------------------------------
// structured generator: "remove storm".  Random histories hold one or two pending removes at a time; this generator
// piles them up on purpose: actor A adds n elements (in generated chunks), actor C -- having seen them -- interleaves
// own adds with removes of A's elements (contexts from contains() or read()), and a third replica B receives ALL of
// C's ops before A's (per-actor order only), so up to n removes with pairwise different contexts are pending at once;
// replica E additionally learns B's early state by merge.  Oracle: the model after every delivery, and equality with
// the causally fed replica D at the end.

#[derive(Clone, Debug, Hash, serde::Serialize, serde::Deserialize)]
pub struct Storm {
    actors: u16,
    /// sizes of A's add chunks (1 = single add, >1 = add_all)
    chunks: Vec<u8>,
    /// per removal by C: (which of A's elements, ctx source: 0 contains / 1 read, C adds an own element first?)
    removals: Vec<(u8, u8, bool)>,
    /// how many of C's ops B receives before A's first op is let through, and interleaving picks afterwards
    hold: u8,
    picks: Vec<u16>,
}

fn storm_strategy() -> proptest::strategy::BoxedStrategy<Storm> {
    use proptest::prelude::*;
    (any::<u16>(), proptest::collection::vec(prop_oneof![3 => Just(1u8), 1 => 2u8..6], 1..=20), proptest::collection::vec((any::<u8>(), 0u8..2, any::<bool>()), 1..=26), any::<u8>(), proptest::collection::vec(any::<u16>(), 8..=8))
        .prop_map(|(actors, chunks, removals, hold, picks)| Storm { actors, chunks, removals, hold, picks })
        .boxed()
}

fn check_storm(c: &Storm, stats: &mut Stats) -> Result<(), Fail> {
    use super::common::*;
    use crate::subject::orswot::sem_of;
    let plan = Plan { editors: 2, observers: 3, steps: Vec::new(), settle: c.picks.clone(), actors: c.actors };
    let cfg = RunCfg::new(Disc::Fifo);
    let mut sim = new_sim::<SOrswot>(&plan, &cfg, stats);
    // replicas: 0 = A, 1 = C, 2 = B (C's ops first), 3 = D (causal), 4 = E (merges B early)
    let (ra, rc, rb, rd, re) = (0usize, 1usize, 2usize, 3usize, 4usize);
    let (aa, ac) = (sim.reps[ra].actor.unwrap(), sim.reps[rc].actor.unwrap());
    let mut a_ops: Vec<usize> = Vec::new();
    let mut c_ops: Vec<usize> = Vec::new();
    let mut next_member = 0u8;
    let mut a_members: Vec<u8> = Vec::new();
    for ch in &c.chunks {
        if a_members.len() >= 24 {
            break;
        }
        let k = (*ch as usize).min(24 - a_members.len()).max(1);
        let ms: Vec<u8> = (0..k).map(|_| {
            next_member += 1;
            next_member
        }).collect();
        let st = &sim.reps[ra].st;
        let op = if ms.len() == 1 { st.add(ms[0], st.read_ctx().derive_add_ctx(aa)) } else { st.add_all(ms.clone(), st.read_ctx().derive_add_ctx(aa)) };
        let sem = sem_of(&op);
        a_ops.push(sim.inject(ra, op, sem, format!("add{:?}", ms)));
        a_members.extend(ms);
    }
    // C sees everything A did
    for &o in &a_ops {
        sim.deliver(rc, o);
    }
    let mut own = 100u8;
    for (which, src, add_first) in &c.removals {
        if *add_first {
            own += 1;
            let st = &sim.reps[rc].st;
            let op = st.add(own, st.read_ctx().derive_add_ctx(ac));
            let sem = sem_of(&op);
            c_ops.push(sim.inject(rc, op, sem, format!("add({own})")));
        }
        let m = a_members[*which as usize % a_members.len()];
        let st = &sim.reps[rc].st;
        let op = if *src == 0 { st.rm(m, st.contains(&m).derive_rm_ctx()) } else { st.rm(m, st.read().derive_rm_ctx()) };
        let sem = sem_of(&op);
        c_ops.push(sim.inject(rc, op, sem, format!("rm({m}) ctx from {}", if *src == 0 { "contains" } else { "read" })));
    }
    let check = |sim: &Sim<SOrswot>, r: usize, stats: &mut Stats| -> Result<(), Fail> {
        let got = SOrswot::observe(&sim.reps[r].st);
        let want = SOrswot::predict(&sim.metas, sim.reps[r].know).unwrap();
        stats.observations += want.len() as u64;
        let d = diff_points(&got, &want);
        if d.is_empty() {
            Ok(())
        } else {
            Err(Fail::new(mismatch_msg("read with piled-up pending removes differs from the specification", r, &d, &got, &want)))
        }
    };
    let mut max_pending = 0usize;
    let mut run = |sim: &mut Sim<SOrswot>, stats: &mut Stats| -> Result<(), Fail> {
        // D: causal reference (A's ops, then C's)
        for &o in a_ops.iter().chain(c_ops.iter()) {
            sim.deliver(rd, o);
        }
        check(sim, rd, stats)?;
        // B: first `hold` of C's ops, then interleave the rest of C's with A's in a generated way (per-actor order kept)
        let hold = (c.hold as usize % (c_ops.len() + 1)).max(c_ops.len().saturating_sub(c.hold as usize % 3));
        let (mut ia, mut ic) = (0usize, 0usize);
        let mut pi = 0usize;
        let mut e_merged = false;
        while ia < a_ops.len() || ic < c_ops.len() {
            let take_c = ic < c_ops.len() && (ic < hold || ia >= a_ops.len() || c.picks[pi % c.picks.len()] & 1 == 0);
            pi += 1;
            if take_c {
                sim.deliver(rb, c_ops[ic]);
                if sim.trace {
                    sim.log.push(format!("r{rb} <- op#{}", c_ops[ic]));
                }
                ic += 1;
            } else {
                // E learns B's state (with all its pending removes) by merge just before A's first op gets through
                if !e_merged {
                    let b_state = sim.reps[rb].st.clone();
                    let b_know = sim.reps[rb].know;
                    SOrswot::merge(&mut sim.reps[re].st, b_state);
                    sim.reps[re].know |= b_know;
                    sim.reps[re].merged = true;
                    e_merged = true;
                    if sim.trace {
                        sim.log.push(format!("r{re} <- merge(state of r{rb})"));
                    }
                    check(sim, re, stats)?;
                }
                sim.deliver(rb, a_ops[ia]);
                if sim.trace {
                    sim.log.push(format!("r{rb} <- op#{}", a_ops[ia]));
                }
                ia += 1;
            }
            // how many removes are pending at B now (model: known removes whose context is not covered)?
            let mut clock = Clock::new();
            for o in bits_iter(sim.reps[rb].know) {
                if let Some(d) = sim.metas[o].sem.dot() {
                    join_dot(&mut clock, d);
                }
            }
            let pending = bits_iter(sim.reps[rb].know).filter(|o| matches!(remove_ctx(&sim.metas[*o].sem), Some(cx) if !leq(cx, &clock))).count();
            max_pending = max_pending.max(pending);
            check(sim, rb, stats)?;
        }
        // E receives whatever it still misses, per-actor order
        for &o in a_ops.iter().chain(c_ops.iter()) {
            if !has(sim.reps[re].know, o) {
                sim.deliver(re, o);
                check(sim, re, stats)?;
            }
        }
        for r in [rb, re] {
            if sim.reps[r].st != sim.reps[rd].st {
                return Err(Fail::new(format!("r{r} (removes delivered before the adds they observed) is not == to the causally fed replica r{rd}:\n   {}\n   {}", crate::tree::to_tree(&sim.reps[r].st), crate::tree::to_tree(&sim.reps[rd].st))));
            }
        }
        Ok(())
    };
    if let Err(f) = run(&mut sim, stats) {
        return Err(fail_with(&sim, stats, f));
    }
    for k in [3usize, 8, 16, 20] {
        if max_pending >= k {
            stats.class(&format!("{k}+ removes pending at once"));
        }
    }
    if max_pending >= 3 {
        stats.cur_nontrivial = true;
        stats.class("nontrivial");
    }
    finish(&sim, stats);
    Ok(())
}

pub fn property() -> Property {
    let mut jobs: Vec<Box<dyn JobT>> = Vec::new();
    let ops = || Weights::ops_only();
    let mixed = || Weights::mixed();
    // Orswot: strict in both sub-domains
    add::<SOrswot>(&mut jobs, "A: edits at causally closed replicas, ops", Disc::Fifo, ops(), true, &[], 12000, 200_000, 0.02);
    add::<SOrswotBig>(&mut jobs, "A: edits at causally closed replicas, ops", Disc::Fifo, ops(), true, &[], 3000, 50000, 0.01);
    add::<SOrswot>(&mut jobs, "B: edits anywhere, ops", Disc::Fifo, ops(), false, &[], 12000, 200_000, 0.02);
    add::<SOrswotBig>(&mut jobs, "B: edits anywhere, ops", Disc::Fifo, ops(), false, &[], 3000, 50000, 0.01);
    add::<SOrswot>(&mut jobs, "B: edits anywhere, ops+merges", Disc::Fifo, mixed(), false, &[], 12000, 200_000, 0.02);
    add::<SOrswotBig>(&mut jobs, "B: edits anywhere, ops+merges", Disc::Fifo, mixed(), false, &[], 3000, 50000, 0.01);
    // MVReg: no ordering assumption at all
    add::<SMVReg>(&mut jobs, "ops", Disc::Any, ops(), false, &[], 12000, 200_000, 0.02);
    add::<SMVReg>(&mut jobs, "ops+merges", Disc::Any, mixed(), false, &[], 8000, 100_000, 0.02);
    // Map
    add::<MapOrswot>(&mut jobs, "A: edits at causally closed replicas, ops", Disc::Fifo, ops(), true, &[Class::T3], 12000, 200_000, 0.02);
    add::<MapOrswotBig>(&mut jobs, "A: edits at causally closed replicas, ops", Disc::Fifo, ops(), true, &[Class::T3], 3000, 50000, 0.01);
    add::<MapOrswot>(&mut jobs, "B: edits anywhere, ops+merges", Disc::Fifo, mixed(), false, &[Class::T1, Class::T3], 12000, 200_000, 0.02);
    add::<MapOrswotBig>(&mut jobs, "B: edits anywhere, ops+merges", Disc::Fifo, mixed(), false, &[Class::T1, Class::T3], 3000, 50000, 0.01);
    add::<MapMVReg>(&mut jobs, "A: edits at causally closed replicas, ops", Disc::Fifo, ops(), true, &[Class::T2, Class::T2b, Class::T3], 12000, 200_000, 0.02);
    add::<MapMVRegBig>(&mut jobs, "A: edits at causally closed replicas, ops", Disc::Fifo, ops(), true, &[Class::T2, Class::T2b, Class::T3], 3000, 50000, 0.01);
    add::<MapMVReg>(&mut jobs, "B: edits anywhere, ops+merges", Disc::Fifo, mixed(), false, &[Class::T1, Class::T2, Class::T2b, Class::T3, Class::T5, Class::T6], 12000, 200_000, 0.02);
    add::<MapMVRegBig>(&mut jobs, "B: edits anywhere, ops+merges", Disc::Fifo, mixed(), false, &[Class::T1, Class::T2, Class::T2b, Class::T3, Class::T5, Class::T6], 3000, 50000, 0.01);
    // order-free types: any order at all
    add::<SGCounter>(&mut jobs, "ops+merges", Disc::Any, mixed(), false, &[], 4000, 40_000, 0.02);
    add::<SPNCounter>(&mut jobs, "ops+merges", Disc::Any, mixed(), false, &[], 4000, 40_000, 0.02);
    add::<SGSet>(&mut jobs, "ops+merges", Disc::Any, mixed(), false, &[], 4000, 40_000, 0.02);
    add::<SGList>(&mut jobs, "ops+merges", Disc::Any, mixed(), false, &[], 4000, 40_000, 0.02);
    add::<SLww>(&mut jobs, "ops+merges", Disc::Any, mixed(), false, &[], 4000, 40_000, 0.02);
    add::<SMax>(&mut jobs, "ops+merges", Disc::Any, mixed(), false, &[], 4000, 40_000, 0.02);
    add::<SMin>(&mut jobs, "ops+merges", Disc::Any, mixed(), false, &[], 4000, 40_000, 0.02);
    add::<SMerkle>(&mut jobs, "ops+merges", Disc::Any, mixed(), false, &[], 6000, 60_000, 0.02);
    add::<SVClock>(&mut jobs, "ops+merges", Disc::Any, mixed(), false, &[], 4000, 40_000, 0.02);
    jobs.push(job("Orswot/remove storm (structured: many pending removes at once)", 12000, 200_000, storm_strategy, |c: &Storm, st: &mut Stats| check_storm(c, st)).floor("nontrivial", 0.3).boxed());
    // plain regression scenario for the repaired defect MAP-T3b (bypasses the generators): two nested removes overtake
    // the adds they observed and are parked; a partial key remove then subtracts its dots from both parked clocks,
    // which become equal; before the fix one pending remove replaced the other and a removed member resurrected
    jobs.push(Box::new(EJob {
        label: "Map<Orswot>/regression: two parked removes whose clocks collapse (fixed finding MAP-T3b)".into(),
        scope: "one hand-written history, 64 rounds with fresh hash seeds".into(),
        f: std::sync::Arc::new(|shard, _n, _thorough, st: &mut Stats| {
            use crdts::{CmRDT, Map, Orswot};
            type M = Map<u8, Orswot<u8, u8>, u8>;
            if shard != 0 {
                return Ok(());
            }
            for round in 0..64 {
                crate::engine::beat();
                st.cases += 1;
                let (mut r0, mut r1, mut r2, mut r3): (M, M, M, M) = (Map::new(), Map::new(), Map::new(), Map::new());
                let op0 = r2.update(0, r2.read_ctx().derive_add_ctx(3), |s, c| s.add(0, c));
                r2.apply(op0.clone());
                let op1 = r0.update(0, r0.read_ctx().derive_add_ctx(1), |s, c| s.add_all(vec![0, 1], c));
                r0.apply(op1.clone());
                r1.apply(op0.clone());
                r1.apply(op1.clone());
                let op3 = r1.update(0, r1.read_ctx().derive_add_ctx(2), |s, _| s.rm(0, s.contains(&0).derive_rm_ctx()));
                r1.apply(op3.clone());
                let op4 = r1.update(0, r1.read_ctx().derive_add_ctx(2), |s, _| s.rm(1, s.contains(&1).derive_rm_ctx()));
                r1.apply(op4.clone());
                let op5 = r2.rm(0, r2.get(&0).derive_rm_ctx());
                r2.apply(op5.clone());
                // per-actor order only: both nested removes overtake the adds they observed
                for op in [op3, op4, op0, op5, op1] {
                    r3.apply(op);
                }
                let members: Vec<u8> = r3.get(&0).val.map(|s| s.read().val.into_iter().collect()).unwrap_or_default();
                st.observations += 1;
                if !members.is_empty() {
                    return Err(Fail::new(format!("round {round}: members {members:?} are present although every add of them is covered by an applied remove (two parked removes with equal clocks: one was lost)")));
                }
                st.nontrivial_enumerated += 1;
            }
            Ok(())
        }),
    }));
    Property {
        id: "C08",
        rule: "Plans under per-actor (FIFO) delivery for Orswot and Map, and NO ordering for MVReg and the order-free types, generator biased to deliver the newest eligible op first so removes/overwrites overtake what they observed; sub-domain A edits only at causally closed replicas, B anywhere; with and without merges of replicas holding pending removes. Oracles: (1) whenever a replica's knowledge is causally closed (and for all replicas after a final settle phase that delivers everything in a generated per-actor order) its reads+contexts equal those of a fresh replica fed the same ops in causal order; (2) intermediate reads equal the specification model (a pending remove hides exactly what it covers). Non-trivial (types with removes) = some replica held a pending remove (a known remove whose context is not covered by the dots it knows) for >=1 step and the missing updates later arrived by op or by merge; (order-free types) = non-causal knowledge at some step with concurrent ops on one element; distinct = distinct Plan hash.".into(),
        assumptions: vec![
            "delivery keeps each actor's ops in issue order (removes included); List is excluded (it documents causal delivery)".into(),
            "exemptions (known findings), per key and counted: MAP-T3 (parked nested remove dropped with its entry), MAP-T6 (nested write made from non-causally-closed knowledge; extras only), MAP-T2/T5 (MVReg leaves; extras only), MAP-T1 (merges)".into(),
        ],
        jobs,
    }
}
