//! C08 — overtaking removes are deferred, never lost: per-actor delivery order suffices.
use super::exempt::Class;
use super::generic::*;
use crate::engine::*;
use crate::plan::*;
use crate::sim::*;
use crate::subject::{lists::*, map::*, merkle::*, mvreg::*, orswot::*, simple::*};

fn add<S: Subject>(jobs: &mut Vec<Box<dyn JobT>>, variant: &str, disc: Disc, w: Weights, closed_edits: bool, ex: &[Class], q: u64, t: u64, floor: f64) {
    let pc = PlanCfg::new(w).steps(6, 30).observers(0, 2);
    let mut ctx = Ctx::new(disc).ex(ex).newest();
    if closed_edits {
        ctx = ctx.closed_edits();
    }
    jobs.push(mk_job(format!("{}/{:?}/{variant}", S::name(), disc), q, t, pc, ctx, check_overtake::<S>).floor("nontrivial", floor).boxed());
}

pub fn property() -> Property {
    let mut jobs: Vec<Box<dyn JobT>> = Vec::new();
    let ops = || Weights::ops_only();
    let mixed = || Weights::mixed();
    // Orswot: strict in both sub-domains
    add::<SOrswot>(&mut jobs, "A: edits at causally closed replicas, ops", Disc::Fifo, ops(), true, &[], 12000, 200_000, 0.02);
    add::<SOrswot>(&mut jobs, "B: edits anywhere, ops", Disc::Fifo, ops(), false, &[], 12000, 200_000, 0.02);
    add::<SOrswot>(&mut jobs, "B: edits anywhere, ops+merges", Disc::Fifo, mixed(), false, &[], 12000, 200_000, 0.02);
    // MVReg: no ordering assumption at all
    add::<SMVReg>(&mut jobs, "ops", Disc::Any, ops(), false, &[], 12000, 200_000, 0.02);
    add::<SMVReg>(&mut jobs, "ops+merges", Disc::Any, mixed(), false, &[], 8000, 100_000, 0.02);
    // Map
    add::<MapOrswot>(&mut jobs, "A: edits at causally closed replicas, ops", Disc::Fifo, ops(), true, &[Class::T3], 12000, 200_000, 0.02);
    add::<MapOrswot>(&mut jobs, "B: edits anywhere, ops+merges", Disc::Fifo, mixed(), false, &[Class::T1, Class::T3], 12000, 200_000, 0.02);
    add::<MapMVReg>(&mut jobs, "A: edits at causally closed replicas, ops", Disc::Fifo, ops(), true, &[Class::T2, Class::T2b, Class::T3], 12000, 200_000, 0.02);
    add::<MapMVReg>(&mut jobs, "B: edits anywhere, ops+merges", Disc::Fifo, mixed(), false, &[Class::T1, Class::T2, Class::T2b, Class::T3, Class::T5, Class::T6], 12000, 200_000, 0.02);
    // order-free types: any order at all
    add::<SGCounter>(&mut jobs, "ops+merges", Disc::Any, mixed(), false, &[], 4000, 40_000, 0.02);
    add::<SPNCounter>(&mut jobs, "ops+merges", Disc::Any, mixed(), false, &[], 4000, 40_000, 0.02);
    add::<SGSet>(&mut jobs, "ops+merges", Disc::Any, mixed(), false, &[], 4000, 40_000, 0.02);
    add::<SGList>(&mut jobs, "ops+merges", Disc::Any, mixed(), false, &[], 4000, 40_000, 0.02);
    add::<SLww>(&mut jobs, "ops+merges", Disc::Any, mixed(), false, &[], 4000, 40_000, 0.02);
    add::<SMax>(&mut jobs, "ops+merges", Disc::Any, mixed(), false, &[], 4000, 40_000, 0.02);
    add::<SMin>(&mut jobs, "ops+merges", Disc::Any, mixed(), false, &[], 4000, 40_000, 0.02);
    add::<SMerkle>(&mut jobs, "ops+merges", Disc::Any, mixed(), false, &[], 6000, 60_000, 0.02);
    add::<SVClock>(&mut jobs, "ops+merges", Disc::Any, mixed(), false, &[], 4000, 40_000, 0.02);
    // plain regression scenario for the repaired defect MAP-T3b (bypasses the generators): two nested removes overtake
    // the adds they observed and are parked; a partial key remove then subtracts its dots from both parked clocks,
    // which become equal; before the fix one pending remove replaced the other and a removed member resurrected
    jobs.push(Box::new(EJob {
        label: "Map<Orswot>/regression: two parked removes whose clocks collapse (fixed finding MAP-T3b)".into(),
        scope: "one hand-written history, 64 rounds with fresh hash seeds".into(),
        f: std::sync::Arc::new(|shard, _n, _thorough, st: &mut Stats| {
            use crdts::{CmRDT, Map, Orswot};
            type M = Map<u8, Orswot<u8, u8>, u8>;
            if shard != 0 {
                return Ok(());
            }
            for round in 0..64 {
                crate::engine::beat();
                st.cases += 1;
                let (mut r0, mut r1, mut r2, mut r3): (M, M, M, M) = (Map::new(), Map::new(), Map::new(), Map::new());
                let op0 = r2.update(0, r2.read_ctx().derive_add_ctx(3), |s, c| s.add(0, c));
                r2.apply(op0.clone());
                let op1 = r0.update(0, r0.read_ctx().derive_add_ctx(1), |s, c| s.add_all(vec![0, 1], c));
                r0.apply(op1.clone());
                r1.apply(op0.clone());
                r1.apply(op1.clone());
                let op3 = r1.update(0, r1.read_ctx().derive_add_ctx(2), |s, _| s.rm(0, s.contains(&0).derive_rm_ctx()));
                r1.apply(op3.clone());
                let op4 = r1.update(0, r1.read_ctx().derive_add_ctx(2), |s, _| s.rm(1, s.contains(&1).derive_rm_ctx()));
                r1.apply(op4.clone());
                let op5 = r2.rm(0, r2.get(&0).derive_rm_ctx());
                r2.apply(op5.clone());
                // per-actor order only: both nested removes overtake the adds they observed
                for op in [op3, op4, op0, op5, op1] {
                    r3.apply(op);
                }
                let members: Vec<u8> = r3.get(&0).val.map(|s| s.read().val.into_iter().collect()).unwrap_or_default();
                st.observations += 1;
                if !members.is_empty() {
                    return Err(Fail::new(format!("round {round}: members {members:?} are present although every add of them is covered by an applied remove (two parked removes with equal clocks: one was lost)")));
                }
                st.nontrivial_enumerated += 1;
            }
            Ok(())
        }),
    }));
    Property {
        id: "C08",
        rule: "Plans under per-actor (FIFO) delivery for Orswot and Map, and NO ordering for MVReg and the order-free types, generator biased to deliver the newest eligible op first so removes/overwrites overtake what they observed; sub-domain A edits only at causally closed replicas, B anywhere; with and without merges of replicas holding pending removes. Oracles: (1) whenever a replica's knowledge is causally closed (and for all replicas after a final settle phase that delivers everything in a generated per-actor order) its reads+contexts equal those of a fresh replica fed the same ops in causal order; (2) intermediate reads equal the specification model (a pending remove hides exactly what it covers). Non-trivial (types with removes) = some replica held a pending remove (a known remove whose context is not covered by the dots it knows) for >=1 step and the missing updates later arrived by op or by merge; (order-free types) = non-causal knowledge at some step with concurrent ops on one element; distinct = distinct Plan hash.".into(),
        assumptions: vec![
            "delivery keeps each actor's ops in issue order (removes included); List is excluded (it documents causal delivery)".into(),
            "exemptions (known findings), per key and counted: MAP-T3 (parked nested remove dropped with its entry), MAP-T6 (nested write made from non-causally-closed knowledge; extras only), MAP-T2/T5 (MVReg leaves; extras only), MAP-T1 (merges)".into(),
        ],
        jobs,
    }
}
