//! C08 — overtaking removes are deferred, never lost: per-actor delivery order suffices.
use super::exempt::Class;
use super::generic::*;
use crate::engine::*;
use crate::plan::*;
use crate::sim::*;
use crate::subject::{lists::*, map::*, merkle::*, mvreg::*, orswot::*, simple::*};

fn add<S: Subject>(jobs: &mut Vec<Box<dyn JobT>>, variant: &str, disc: Disc, w: Weights, closed_edits: bool, ex: &[Class], q: u64, t: u64, floor: f64) {
    let pc = PlanCfg::new(w).steps(6, 30).observers(0, 2);
    let mut ctx = Ctx::new(disc).ex(ex).newest();
    if closed_edits {
        ctx = ctx.closed_edits();
    }
    jobs.push(mk_job(format!("{}/{:?}/{variant}", S::name(), disc), q, t, pc, ctx, check_overtake::<S>).floor("nontrivial", floor).boxed());
}

pub fn property() -> Property {
    let mut jobs: Vec<Box<dyn JobT>> = Vec::new();
    let ops = || Weights::ops_only();
    let mixed = || Weights::mixed();
    // Orswot: strict in both sub-domains
    add::<SOrswot>(&mut jobs, "A: edits at causally closed replicas, ops", Disc::Fifo, ops(), true, &[], 12000, 200_000, 0.02);
    add::<SOrswot>(&mut jobs, "B: edits anywhere, ops", Disc::Fifo, ops(), false, &[], 12000, 200_000, 0.02);
    add::<SOrswot>(&mut jobs, "B: edits anywhere, ops+merges", Disc::Fifo, mixed(), false, &[], 12000, 200_000, 0.02);
    // MVReg: no ordering assumption at all
    add::<SMVReg>(&mut jobs, "ops", Disc::Any, ops(), false, &[], 12000, 200_000, 0.02);
    add::<SMVReg>(&mut jobs, "ops+merges", Disc::Any, mixed(), false, &[], 8000, 100_000, 0.02);
    // Map
    add::<MapOrswot>(&mut jobs, "A: edits at causally closed replicas, ops", Disc::Fifo, ops(), true, &[Class::T3], 12000, 200_000, 0.02);
    add::<MapOrswot>(&mut jobs, "B: edits anywhere, ops+merges", Disc::Fifo, mixed(), false, &[Class::T1, Class::T3], 12000, 200_000, 0.02);
    add::<MapMVReg>(&mut jobs, "A: edits at causally closed replicas, ops", Disc::Fifo, ops(), true, &[Class::T2, Class::T2b, Class::T3], 12000, 200_000, 0.02);
    add::<MapMVReg>(&mut jobs, "B: edits anywhere, ops+merges", Disc::Fifo, mixed(), false, &[Class::T1, Class::T2, Class::T2b, Class::T3, Class::T5, Class::T6], 12000, 200_000, 0.02);
    // order-free types: any order at all
    add::<SGCounter>(&mut jobs, "ops+merges", Disc::Any, mixed(), false, &[], 4000, 40_000, 0.02);
    add::<SPNCounter>(&mut jobs, "ops+merges", Disc::Any, mixed(), false, &[], 4000, 40_000, 0.02);
    add::<SGSet>(&mut jobs, "ops+merges", Disc::Any, mixed(), false, &[], 4000, 40_000, 0.02);
    add::<SGList>(&mut jobs, "ops+merges", Disc::Any, mixed(), false, &[], 4000, 40_000, 0.02);
    add::<SLww>(&mut jobs, "ops+merges", Disc::Any, mixed(), false, &[], 4000, 40_000, 0.02);
    add::<SMax>(&mut jobs, "ops+merges", Disc::Any, mixed(), false, &[], 4000, 40_000, 0.02);
    add::<SMin>(&mut jobs, "ops+merges", Disc::Any, mixed(), false, &[], 4000, 40_000, 0.02);
    add::<SMerkle>(&mut jobs, "ops+merges", Disc::Any, mixed(), false, &[], 6000, 60_000, 0.02);
    add::<SVClock>(&mut jobs, "ops+merges", Disc::Any, mixed(), false, &[], 4000, 40_000, 0.02);
    Property {
        id: "C08",
        rule: "Plans under per-actor (FIFO) delivery for Orswot and Map, and NO ordering for MVReg and the order-free types, generator biased to deliver the newest eligible op first so removes/overwrites overtake what they observed; sub-domain A edits only at causally closed replicas, B anywhere; with and without merges of replicas holding pending removes. Oracles: (1) whenever a replica's knowledge is causally closed (and for all replicas after a final settle phase that delivers everything in a generated per-actor order) its reads+contexts equal those of a fresh replica fed the same ops in causal order; (2) intermediate reads equal the specification model (a pending remove hides exactly what it covers). Non-trivial (types with removes) = some replica held a pending remove (a known remove whose context is not covered by the dots it knows) for >=1 step and the missing updates later arrived by op or by merge; (order-free types) = non-causal knowledge at some step with concurrent ops on one element; distinct = distinct Plan hash.".into(),
        assumptions: vec![
            "delivery keeps each actor's ops in issue order (removes included); List is excluded (it documents causal delivery)".into(),
            "exemptions (known findings), per key and counted: MAP-T3 (parked nested remove dropped with its entry), MAP-T6 (nested write made from non-causally-closed knowledge; extras only), MAP-T2/T5 (MVReg leaves; extras only), MAP-T1 (merges)".into(),
        ],
        jobs,
    }
}
