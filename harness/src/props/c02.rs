//! C02 — merge is a join (commutative, associative, idempotent) on reachable states.
use super::exempt::Class;
use super::generic::*;
use crate::engine::*;
use crate::plan::*;
use crate::sim::*;
use crate::subject::{lists::*, map::*, merkle::*, mvreg::*, orswot::*, simple::*};

fn add<S: Subject>(jobs: &mut Vec<Box<dyn JobT>>, q: u64, t: u64, ex: &[Class], floor: f64) {
    // operands share history, hold removes that observed remote adds, hold pending removes (the
    // discipline is the weakest one the type documents), and are results of earlier merges
    let pc = PlanCfg::new(Weights::mixed().with_probe(14)).steps(6, 28).editors(2, 4);
    let pc = pc.long_share(S::LONG);
    let ctx = Ctx::new(S::NEEDS).ex(ex).newest();
    jobs.push(mk_job(format!("{}/{:?}/ops+merges", S::name(), S::NEEDS), q, t, pc, ctx, check_merge_laws::<S>).floor("nontrivial", floor).boxed());
}

pub fn property() -> Property {
    let mut jobs: Vec<Box<dyn JobT>> = Vec::new();
    add::<SOrswot>(&mut jobs, 18000, 200_000, &[], 0.03);
    add::<SOrswotBig>(&mut jobs, 4500, 50000, &[], 0.015);
    add::<SMVReg>(&mut jobs, 18000, 200_000, &[], 0.03);
    add::<MapOrswot>(&mut jobs, 18000, 200_000, &[Class::T1, Class::T3], 0.03);
    add::<MapOrswotBig>(&mut jobs, 4500, 50000, &[Class::T1, Class::T3], 0.015);
    add::<MapMVReg>(&mut jobs, 18000, 200_000, &[Class::T1, Class::T3, Class::T5], 0.015);
    add::<MapMVRegBig>(&mut jobs, 4500, 50000, &[Class::T1, Class::T3, Class::T5], 0.0075);
    add::<MapMapMVReg>(&mut jobs, 12000, 100_000, &[Class::T1, Class::T3, Class::T5], 0.03);
    add::<SGList>(&mut jobs, 9000, 60_000, &[], 0.03);
    add::<SMerkle>(&mut jobs, 9000, 60_000, &[], 0.03);
    add::<SVClock>(&mut jobs, 6000, 40_000, &[], 0.03);
    add::<SGCounter>(&mut jobs, 6000, 40_000, &[], 0.03);
    add::<SPNCounter>(&mut jobs, 6000, 40_000, &[], 0.03);
    add::<SGSet>(&mut jobs, 6000, 40_000, &[], 0.03);
    add::<SLww>(&mut jobs, 6000, 40_000, &[], 0.03);
    add::<SMax>(&mut jobs, 6000, 40_000, &[], 0.03);
    add::<SMin>(&mut jobs, 6000, 40_000, &[], 0.03);
    Property {
        id: "C02",
        rule: "Plans mixing API edits, op deliveries (weakest documented discipline per type, newest-first biased so operands hold pending removes), duplicates, merges, stale-snapshot merges and Probe steps; each Probe picks a triple (a,b,c) among the current replica states and remembered snapshots and checks a+b = b+a, (a+b)+c = a+(b+c), a+a = a on all reads and contexts; at the end every state is gossiped everywhere in a generated order and all replicas must read the same. Non-trivial = a probed triple whose knowledge sets are pairwise different and overlapping, not a no-op, and (for types with removes) containing a remove that observed another replica's update; distinct = distinct Plan hash.".into(),
        assumptions: vec!["distinct actors per replica; LWWReg markers are unique (model-issued)".into(), "Map: mismatches at keys where a known-finding trigger holds (MAP-T1 with merges; MAP-T2 for MVReg leaves; MAP-T3/T6 for non-causally-closed operands) are exempted per key and counted".into()],
        jobs,
    }
}
