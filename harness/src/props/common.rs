//! Shared pieces of the property checks.
use crate::engine::{Fail, Stats};
use crate::plan::Plan;
use crate::sim::*;
use serde_json::{json, Value};

#[derive(Clone, Debug)]
pub struct RunCfg {
    pub disc: Disc,
    pub newest_first: bool,
    pub edit_closed_only: bool,
}
impl RunCfg {
    pub fn new(disc: Disc) -> Self {
        RunCfg { disc, newest_first: false, edit_closed_only: false }
    }
}

pub fn new_sim<S: Subject>(plan: &Plan, cfg: &RunCfg, stats: &Stats) -> Sim<S> {
    let mut sim = Sim::<S>::new(plan, cfg.disc);
    sim.trace = stats.trace;
    sim.newest_first = cfg.newest_first;
    sim.edit_closed_only = cfg.edit_closed_only;
    sim
}

pub fn finish<S: Subject>(sim: &Sim<S>, stats: &mut Stats) {
    stats.skipped_steps += sim.skipped;
    stats.executed_steps += sim.executed;
    if stats.trace {
        stats.samples.push(sim.render());
    }
}

/// On a failure while tracing, still record the history so the replay file shows it.
pub fn fail_with<S: Subject>(sim: &Sim<S>, stats: &mut Stats, f: Fail) -> Fail {
    if stats.trace {
        let mut r = sim.render();
        r["failure"] = json!(f.msg);
        stats.samples.push(r);
    }
    f
}

/// replica affected by an event
pub fn affected<S: Subject>(ev: &Event<S>) -> Option<usize> {
    match ev {
        Event::Edited { r, .. } | Event::Delivered { r, .. } | Event::Restored { r, .. } => Some(*r),
        Event::Merged { dst, .. } => Some(*dst),
        _ => None,
    }
}

/// Compare two observations point by point; returns the differing point names.
pub fn diff_points(a: &Obs, b: &Obs) -> Vec<String> {
    let mut d = Vec::new();
    for (k, v) in a {
        if b.get(k) != Some(v) {
            d.push(k.clone());
        }
    }
    for k in b.keys() {
        if !a.contains_key(k) {
            d.push(k.clone());
        }
    }
    d
}

pub fn obs_json(o: &Obs) -> Value {
    let mut m = serde_json::Map::new();
    for (k, v) in o {
        m.insert(k.clone(), v.clone());
    }
    Value::Object(m)
}

pub fn mismatch_msg(what: &str, r: usize, points: &[String], got: &Obs, want: &Obs) -> String {
    let mut s = format!("{what} at replica r{r}: ");
    for p in points.iter().take(4) {
        s.push_str(&format!("\n   [{p}] observed {} expected {}", got.get(p).cloned().unwrap_or(Value::Null), want.get(p).cloned().unwrap_or(Value::Null)));
    }
    s
}

// ---------------- model-side classification helpers (never look at implementation output) -------

/// the element (path + member/key) an op touches, for concurrency classification
pub fn touched(sem: &Sem) -> Vec<String> {
    fn go(sem: &Sem, prefix: &str, out: &mut Vec<String>) {
        match sem {
            Sem::SetAdd { members, .. } | Sem::SetRm { members, .. } => {
                for m in members {
                    out.push(format!("{prefix}/m{m}"));
                }
            }
            Sem::Put { .. } => out.push(format!("{prefix}/reg")),
            Sem::MapUp { key, inner, .. } => go(inner, &format!("{prefix}/k{key}"), out),
            Sem::MapRm { keys, .. } => {
                for k in keys {
                    out.push(format!("{prefix}/k{k}"));
                }
            }
            Sem::ListIns { .. } | Sem::ListDel { .. } | Sem::GIns { .. } => out.push("list".into()),
            Sem::Dot { .. } | Sem::Pn { .. } | Sem::Inc { .. } => out.push("counter".into()),
            Sem::Val { .. } | Sem::Lww { .. } => out.push("reg".into()),
            Sem::Merkle { .. } => out.push("dag".into()),
            Sem::None => {}
        }
    }
    let mut v = Vec::new();
    go(sem, "", &mut v);
    v
}

fn overlaps(a: &[String], b: &[String]) -> bool {
    a.iter().any(|x| b.iter().any(|y| x == y || x.starts_with(&format!("{y}/")) || y.starts_with(&format!("{x}/"))))
}

/// ops i<j are concurrent iff i not in deps(j) (creation order is a linear extension)
pub fn concurrent(metas: &[OpMeta], i: usize, j: usize) -> bool {
    let (i, j) = if i < j { (i, j) } else { (j, i) };
    !has(metas[j].deps, i) && metas[i].author != metas[j].author
}

pub fn has_concurrent_same_elem(metas: &[OpMeta]) -> bool {
    for j in 0..metas.len() {
        let tj = touched(&metas[j].sem);
        for i in 0..j {
            if concurrent(metas, i, j) && overlaps(&touched(&metas[i].sem), &tj) {
                return true;
            }
        }
    }
    false
}

/// context of the (innermost) remove carried by an op
pub fn remove_ctx(sem: &Sem) -> Option<&Clock> {
    match sem {
        Sem::SetRm { ctx, .. } | Sem::MapRm { ctx, .. } => Some(ctx),
        Sem::MapUp { inner, .. } => remove_ctx(inner),
        _ => None,
    }
}

/// a remove whose context covers a dot issued by another replica's actor
pub fn has_remote_observed_remove(metas: &[OpMeta]) -> bool {
    metas.iter().any(|m| match remove_ctx(&m.sem) {
        Some(ctx) => ctx.iter().any(|(a, n)| *n > 0 && Some(*a) != m.actor),
        None => match &m.sem {
            // a list delete of an element inserted by another replica
            Sem::ListDel { tag, .. } => metas.iter().any(|i| matches!(&i.sem, Sem::ListIns { tag: t, .. } if t == tag) && i.author != m.author),
            _ => false,
        },
    })
}

/// number of distinct actors that issued a dot
pub fn actors_with_dots(metas: &[OpMeta]) -> usize {
    let mut v: Vec<u8> = metas.iter().filter_map(|m| m.sem.dot().map(|d| d.0)).collect();
    v.sort();
    v.dedup();
    v.len()
}
