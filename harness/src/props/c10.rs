//! C10 — VClock is a correct partial order with join, meet and forget.
use crate::engine::*;
use crdts::{CmRDT, CvRDT, Dot, ResetRemove, VClock};
use proptest::prelude::*;
use serde_json::json;
use std::cmp::Ordering;
use std::collections::BTreeMap;
use std::sync::Arc;

type M = BTreeMap<u8, u64>;

fn build(m: &M) -> VClock<u8> {
    // through the API only
    let mut c = VClock::new();
    for (a, n) in m {
        c.apply(Dot::new(*a, *n));
    }
    c
}
fn model_of(c: &VClock<u8>) -> M {
    c.iter().map(|d| (*d.actor, d.counter)).collect()
}
fn g(m: &M, a: u8) -> u64 {
    m.get(&a).copied().unwrap_or(0)
}
fn norm(m: &M) -> M {
    m.iter().filter(|(_, n)| **n > 0).map(|(a, n)| (*a, *n)).collect()
}
fn m_leq(a: &M, b: &M) -> bool {
    a.iter().all(|(k, v)| g(b, *k) >= *v)
}
fn m_cmp(a: &M, b: &M) -> Option<Ordering> {
    let (a, b) = (norm(a), norm(b));
    match (m_leq(&a, &b), m_leq(&b, &a)) {
        (true, true) => Some(Ordering::Equal),
        (true, false) => Some(Ordering::Less),
        (false, true) => Some(Ordering::Greater),
        (false, false) => None,
    }
}
fn m_max(a: &M, b: &M) -> M {
    let mut r = norm(a);
    for (k, v) in b {
        if *v > g(&r, *k) {
            r.insert(*k, *v);
        }
    }
    r
}
fn m_min(a: &M, b: &M) -> M {
    norm(&a.iter().map(|(k, v)| (*k, (*v).min(g(b, *k)))).collect())
}
fn no_zero(c: &VClock<u8>, what: &str) -> Result<(), Fail> {
    if c.dots.values().any(|n| *n == 0) || c.iter().any(|d| d.counter == 0) {
        return Err(Fail::new(format!("{what} stored a zero counter: {c:?}")));
    }
    Ok(())
}
fn expect(c: &VClock<u8>, m: &M, what: &str) -> Result<(), Fail> {
    no_zero(c, what)?;
    if model_of(c) != norm(m) {
        return Err(Fail::new(format!("{what}: got {:?}, expected {:?}", model_of(c), norm(m))));
    }
    Ok(())
}

/// every binary law on one pair, with all dots of the given actors / counters
pub fn check_pair(ma: &M, mb: &M, actors: &[u8], max_ctr: u64) -> Result<(), Fail> {
    let (a, b) = (build(ma), build(mb));
    expect(&a, ma, "apply-built clock")?;
    let ctx = |s: &str| format!("{s} for a={ma:?} b={mb:?}");
    // order
    let want = m_cmp(ma, mb);
    if a.partial_cmp(&b) != want {
        return Err(Fail::new(ctx(&format!("partial_cmp = {:?}, pointwise order says {:?}", a.partial_cmp(&b), want))));
    }
    if a.concurrent(&b) != want.is_none() {
        return Err(Fail::new(ctx("concurrent() disagrees with the pointwise order")));
    }
    if (a == b) != (want == Some(Ordering::Equal)) {
        return Err(Fail::new(ctx("== disagrees with the pointwise order")));
    }
    if (a >= b) != matches!(want, Some(Ordering::Greater) | Some(Ordering::Equal)) || (a < b) != (want == Some(Ordering::Less)) {
        return Err(Fail::new(ctx(">= / < disagree with the pointwise order")));
    }
    if a.partial_cmp(&a) != Some(Ordering::Equal) {
        return Err(Fail::new(ctx("not reflexive")));
    }
    // join
    let mut j = a.clone();
    j.merge(b.clone());
    expect(&j, &m_max(ma, mb), &ctx("merge"))?;
    if !(j >= a && j >= b) {
        return Err(Fail::new(ctx("merge is not an upper bound")));
    }
    // meet
    let mut m = a.clone();
    m.glb(&b);
    expect(&m, &m_min(ma, mb), &ctx("glb"))?;
    if !(m <= a && m <= b) {
        return Err(Fail::new(ctx("glb is not a lower bound")));
    }
    // intersection keeps exactly the equal non-zero entries
    let i = VClock::intersection(&a, &b);
    let mi: M = ma.iter().filter(|(k, v)| **v > 0 && g(mb, **k) == **v).map(|(k, v)| (*k, *v)).collect();
    expect(&i, &mi, &ctx("intersection"))?;
    // forget
    let mut r = a.clone();
    r.reset_remove(&b);
    let mr: M = ma.iter().filter(|(k, v)| **v > g(mb, **k)).map(|(k, v)| (*k, *v)).collect();
    expect(&r, &mr, &ctx("reset_remove"))?;
    expect(&a.clone_without(&b), &mr, &ctx("clone_without"))?;
    let mut e = a.clone();
    e.reset_remove(&VClock::new());
    expect(&e, ma, &ctx("reset_remove(empty)"))?;
    let mut s = a.clone();
    s.reset_remove(&a);
    expect(&s, &M::new(), &ctx("reset_remove(self)"))?;
    // dots
    for &x in actors {
        if a.get(&x) != g(ma, x) {
            return Err(Fail::new(ctx("get()")));
        }
        let d = a.dot(x);
        if (d.actor, d.counter) != (x, g(ma, x)) {
            return Err(Fail::new(ctx("dot()")));
        }
        let inc = a.inc(x);
        if (inc.actor, inc.counter) != (x, g(ma, x) + 1) {
            return Err(Fail::new(ctx(&format!("inc({x}) = {inc:?}"))));
        }
        // Dot::inc / Dot::apply_inc: the successor of the actor's dot, by value and in place
        let succ = d.inc();
        let mut inplace = d.clone();
        inplace.apply_inc();
        if succ != inc || inplace != inc {
            return Err(Fail::new(ctx(&format!("dot({x}).inc() = {succ:?}, apply_inc -> {inplace:?}, VClock::inc({x}) = {inc:?}"))));
        }
        for n in 0..=max_ctr + 2 {
            let dot = Dot::new(x, n);
            let v = a.validate_op(&dot);
            let next = g(ma, x) + 1;
            let want_v = if n > next { Err((x, next..n)) } else { Ok(()) };
            let got_v = v.map_err(|e| (e.actor, e.counter_range));
            if got_v != want_v {
                return Err(Fail::new(ctx(&format!("validate_op({dot:?}) = {got_v:?}, expected {want_v:?}"))));
            }
            let mut ap = a.clone();
            ap.apply(dot);
            let mut mm = ma.clone();
            if n > g(ma, x) {
                mm.insert(x, n);
            }
            expect(&ap, &mm, &ctx(&format!("apply({dot:?})")))?;
            if !(ap >= a) {
                return Err(Fail::new(ctx(&format!("apply({dot:?}) is not monotone"))));
            }
            // Dot order: same actor only
            for &y in actors {
                for k in 0..=2u64 {
                    let o = Dot::new(y, k);
                    let w = if x == y { n.partial_cmp(&k) } else { None };
                    if dot.partial_cmp(&o) != w {
                        return Err(Fail::new(format!("Dot::partial_cmp({dot:?},{o:?}) = {:?}, expected {w:?}", dot.partial_cmp(&o))));
                    }
                }
            }
        }
    }
    if a.is_empty() != norm(ma).is_empty() {
        return Err(Fail::new(ctx("is_empty()")));
    }
    // iteration round trips
    let rt: VClock<u8> = a.clone().into_iter().collect();
    expect(&rt, ma, &ctx("into_iter -> from_iter"))?;
    for (k, v) in norm(ma) {
        let single: VClock<u8> = Dot::new(k, v).into();
        expect(&single, &[(k, v)].into_iter().collect(), "From<Dot>")?;
    }
    let z: VClock<u8> = Dot::new(1, 0).into();
    no_zero(&z, "From<Dot(1,0)>")?;
    Ok(())
}

fn check_triple(a: &VClock<u8>, b: &VClock<u8>, c: &VClock<u8>) -> Result<(), Fail> {
    let le = |x: &VClock<u8>, y: &VClock<u8>| matches!(x.partial_cmp(y), Some(Ordering::Less) | Some(Ordering::Equal));
    if le(a, b) && le(b, c) && !le(a, c) {
        return Err(Fail::new(format!("order not transitive: {a:?} <= {b:?} <= {c:?}")));
    }
    if le(a, b) && le(b, a) && a != b {
        return Err(Fail::new(format!("order not antisymmetric: {a:?} {b:?}")));
    }
    // least upper bound / greatest lower bound
    if le(a, c) && le(b, c) {
        let mut j = a.clone();
        j.merge(b.clone());
        if !le(&j, c) {
            return Err(Fail::new(format!("merge({a:?},{b:?}) = {j:?} is not below the upper bound {c:?}")));
        }
    }
    if le(c, a) && le(c, b) {
        let mut m = a.clone();
        m.glb(b);
        if !le(c, &m) {
            return Err(Fail::new(format!("glb({a:?},{b:?}) = {m:?} is not above the lower bound {c:?}")));
        }
    }
    // rr(c1); rr(c2) == rr(c1 join c2)
    let mut x = a.clone();
    x.reset_remove(b);
    x.reset_remove(c);
    let mut j = b.clone();
    j.merge(c.clone());
    let mut y = a.clone();
    y.reset_remove(&j);
    if x != y {
        return Err(Fail::new(format!("reset_remove({b:?}) then ({c:?}) != reset_remove(join) on {a:?}")));
    }
    Ok(())
}

fn all_clocks(actors: usize, max: u64) -> Vec<M> {
    let mut v = vec![M::new()];
    for a in 0..actors as u8 {
        let mut next = Vec::new();
        for m in &v {
            for n in 0..=max {
                let mut m2 = m.clone();
                if n > 0 {
                    m2.insert(a, n);
                }
                next.push(m2);
            }
        }
        v = next;
    }
    v
}

#[derive(Clone, Debug, Hash, serde::Serialize, serde::Deserialize)]
pub struct RandCase {
    a: Vec<(u8, u64)>,
    b: Vec<(u8, u64)>,
    c: Vec<(u8, u64)>,
}

fn rand_clock() -> impl Strategy<Value = Vec<(u8, u64)>> {
    let ctr = prop_oneof![3 => 0u64..4, 2 => 0u64..100, 1 => (u64::MAX / 2 - 3)..(u64::MAX / 2), 1 => any::<u64>().prop_map(|x| x / 2)];
    proptest::collection::vec((0u8..6, ctr), 0..7)
}

pub fn property() -> Property {
    let mut jobs: Vec<Box<dyn JobT>> = Vec::new();
    jobs.push(Box::new(EJob {
        label: "VClock/exhaustive".into(),
        scope: "all clocks over 3 actors x counters 0..=3 (64 clocks): all 4096 pairs x all dots (3 actors x counters 0..=5), all 262144 triples; thorough: 4 actors x 0..=3 (256 clocks, 65536 pairs, 16.7M triples)".into(),
        f: Arc::new(|shard, n, thorough, st: &mut Stats| {
            let actors = if thorough { 4 } else { 3 };
            let ms = all_clocks(actors, 3);
            let cs: Vec<VClock<u8>> = ms.iter().map(build).collect();
            let acts: Vec<u8> = (0..actors as u8).collect();
            for (i, ma) in ms.iter().enumerate() {
                if (i as u64) % n != shard {
                    continue;
                }
                for (j, mb) in ms.iter().enumerate() {
                    st.cases += 1;
                    crate::engine::beat();
                    st.observations += 1;
                    check_pair(ma, mb, &acts, 3)?;
                    let interesting = m_cmp(ma, mb).is_none() || (ma.len() != mb.len() && m_cmp(ma, mb).is_some());
                    if interesting {
                        st.nontrivial_enumerated += 1;
                        if st.samples.len() < 2 && i > 20 {
                            st.samples.push(json!({"a": format!("{ma:?}"), "b": format!("{mb:?}"), "pointwise_order": format!("{:?}", m_cmp(ma, mb))}));
                        }
                    }
                    for c in &cs {
                        st.observations += 1;
                        check_triple(&cs[i], &cs[j], c)?;
                    }
                }
            }
            Ok(())
        }),
    }));
    jobs.push(
        job(
            "VClock/random",
            300_000,
            1_000_000,
            || strat((rand_clock(), rand_clock(), rand_clock()).prop_map(|(a, b, c)| RandCase { a, b, c })),
            |t: &RandCase, st: &mut Stats| {
                let mk = |v: &Vec<(u8, u64)>| -> M {
                    let mut m = M::new();
                    for (a, n) in v {
                        if *n > g(&m, *a) {
                            m.insert(*a, *n);
                        }
                    }
                    m
                };
                let (ma, mb, mc) = (mk(&t.a), mk(&t.b), mk(&t.c));
                // from_iter is order-insensitive and idempotent
                let fa: VClock<u8> = t.a.iter().map(|(a, n)| Dot::new(*a, *n)).collect();
                expect(&fa, &ma, "from_iter")?;
                let mut rev = t.a.clone();
                rev.reverse();
                rev.extend(t.a.iter().cloned());
                let fr: VClock<u8> = rev.iter().map(|(a, n)| Dot::new(*a, *n)).collect();
                if fr != fa {
                    return Err(Fail::new("from_iter depends on order / repetition"));
                }
                check_pair(&ma, &mb, &[0, 1, 2, 3, 4, 5, 6], 1)?;
                check_pair(&mb, &mc, &[0, 5], 1)?;
                check_triple(&build(&ma), &build(&mb), &build(&mc))?;
                check_triple(&build(&mc), &build(&ma), &build(&mb))?;
                st.observations += 4;
                let nt = m_cmp(&ma, &mb).is_none() || (m_cmp(&ma, &mb).is_some() && norm(&ma).len() != norm(&mb).len());
                if nt {
                    st.cur_nontrivial = true;
                    st.class("nontrivial");
                }
                if st.trace {
                    st.samples.push(json!({"a": format!("{ma:?}"), "b": format!("{mb:?}"), "c": format!("{mc:?}")}));
                }
                Ok(())
            },
        )
        .decoder(|d: &[u8]| {
            let mut r = crate::plan::Reader::new(d);
            let mut clock = |r: &mut crate::plan::Reader| -> Vec<(u8, u64)> {
                let n = (r.u8() % 7) as usize;
                (0..n)
                    .map(|_| {
                        let a = r.u8() % 6;
                        let c = match r.u8() % 4 {
                            0 | 1 => (r.u8() % 4) as u64,
                            2 => r.u16() as u64,
                            _ => u64::MAX / 2 - (r.u8() % 4) as u64,
                        };
                        (a, c)
                    })
                    .collect()
            };
            if d.len() < 6 {
                return None;
            }
            let a = clock(&mut r);
            let b = clock(&mut r);
            let c = clock(&mut r);
            Some(RandCase { a, b, c })
        })
        .floor("nontrivial", 0.2)
        .boxed(),
    );
    Property {
        id: "C10",
        rule: "(a) bounded-exhaustive: every clock over 3 actors x counters 0..=3 built through apply(): all pairs (order = pointwise order incl. missing actors as 0, reflexive, concurrent iff neither dominates, == iff same map, merge = pointwise max and upper bound, glb = pointwise min and lower bound, intersection = equal non-zero entries, reset_remove keeps exactly entries strictly newer, clone_without, rr(empty)=id, rr(self)=empty, get/dot/inc, validate_op(dot) for counters 0..=5 incl. the exact error range, apply monotone, Dot order, iteration round trips, no zero counter stored anywhere) and all triples (transitivity, antisymmetry, merge is the LEAST upper bound, glb the GREATEST lower bound, rr(c1);rr(c2)=rr(c1 join c2)); (b) proptest: up to 6 actors, counters up to u64::MAX/2, same laws plus from_iter order-insensitivity. Non-trivial = pair is concurrent, or comparable with an actor missing on one side; distinct = distinct pair / distinct generated case.".into(),
        assumptions: vec!["clocks are built through the API (apply/from_iter/From<Dot>), never by writing the public `dots` field".into(), "per-actor independence of the implementation makes the small exhaustive scope representative (evidence, not proof)".into()],
        jobs,
    }
}
