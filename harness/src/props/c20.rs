//! C20 — equal knowledge gives structurally equal state; no tombstones remain.
use super::common::*;
use super::exempt::{explain_eq, Class, Lineage};
use super::generic::*;
use crate::engine::*;
use crate::model::dotstore::Store;
use crate::model::mvreg::RegModel;
use crate::plan::*;
use crate::sim::*;
use crate::subject::{lists::*, map::*, merkle::*, mvreg::*, orswot::*, simple::*};
use crate::tree::to_tree;
use serde_json::{json, Value};

fn eq_safe<T: PartialEq>(a: &T, b: &T) -> Result<bool, String> {
    std::panic::catch_unwind(std::panic::AssertUnwindSafe(|| a == b && b == a)).map_err(|p| {
        if let Some(s) = p.downcast_ref::<String>() {
            s.clone()
        } else {
            "panic".to_string()
        }
    })
}

/// residue in a state tree: a non-empty pending-remove table or an element with an empty clock, at any depth
fn residue(v: &Value, path: &str, out: &mut Vec<String>) {
    match v {
        Value::Object(m) => {
            for (k, x) in m {
                let p = format!("{path}/{k}");
                if k == "deferred" && x.as_object().map(|o| !o.is_empty()).unwrap_or(false) {
                    out.push(format!("pending remove table at {p}: {x}"));
                }
                if k == "entries" {
                    if let Value::Object(es) = x {
                        for (ek, ev) in es {
                            // orswot entry: clock object; map entry: {clock, val}
                            let c = if ev.get("clock").is_some() && ev.get("val").is_some() { &ev["clock"] } else { ev };
                            if c.as_object().map(|o| o.is_empty()).unwrap_or(false) {
                                out.push(format!("entry {ek} at {p} has an empty clock"));
                            }
                        }
                    }
                }
                residue(x, &p, out);
            }
        }
        Value::Array(a) => {
            for (i, x) in a.iter().enumerate() {
                // MVReg value [clock, val] with an empty clock
                if let Value::Array(pair) = x {
                    if pair.len() == 2 && pair[0].as_object().map(|o| o.is_empty()).unwrap_or(false) {
                        out.push(format!("register value #{i} at {path} has an empty context"));
                    }
                }
                residue(x, &format!("{path}/{i}"), out);
            }
        }
        _ => {}
    }
}

/// canonical state rebuilt from the model (top-level Orswot / MVReg)
fn canonical<S: Subject>(sim: &Sim<S>, know: Bits) -> Option<S::St> {
    let name = S::name();
    if name.starts_with("Orswot") {
        let ds = Store::build(&sim.metas, know);
        let mut entries = serde_json::Map::new();
        for m in ds.set_members(&[]) {
            entries.insert(m.to_string(), clock_json(&ds.set_witness(&[], m)));
        }
        let v = json!({"clock": clock_json(&ds.clock()), "entries": entries, "deferred": {}});
        serde_json::from_value(v).ok()
    } else if name.starts_with("MVReg") {
        let rm = RegModel::build(&sim.metas);
        let vals: Vec<Value> = rm.visible(know).into_iter().map(|w| {
            let (_, ctx, v, _) = rm.writes[w].as_ref().unwrap();
            json!([clock_json(ctx), v])
        }).collect();
        serde_json::from_value(Value::Array(vals)).ok()
    } else {
        None
    }
}

fn check_equal_state<S: Subject>(plan: &Plan, ctx: &Ctx, stats: &mut Stats, eq_ex: &[Class]) -> Result<(), Fail> {
    let mut sim = new_sim::<S>(plan, &ctx.cfg, stats);
    let n = sim.reps.len();
    let mut nontrivial = false;
    let judge_eq = |sim: &Sim<S>, stats: &mut Stats, a: &S::St, b: &S::St, know: Bits, lin: &Lineage, what: String| -> Result<(), Fail> {
        stats.observations += 1;
        let verdict = eq_safe(a, b);
        if verdict == Ok(true) {
            return Ok(());
        }
        if !stats.strict {
            if let Some(c) = explain_eq(sim, know, lin, eq_ex) {
                stats.exempt(c);
                return Ok(());
            }
        }
        let how = match verdict {
            Err(p) => format!("== PANICKED ({p})"),
            _ => "are not ==".to_string(),
        };
        Err(Fail::new(format!("{what} {how}:\n   {}\n   {}", to_tree(a), to_tree(b))))
    };
    for (si, step) in plan.steps.iter().enumerate() {
        let ev = sim.step(step);
        let Some(r) = affected(&ev) else { continue };
        let know = sim.reps[r].know;
        if know == 0 {
            continue;
        }
        // (i) equal knowledge => ==, against every other replica ...
        for q in 0..n {
            if q != r && sim.reps[q].know == know {
                let lin = Lineage { merged: sim.reps[r].merged || sim.reps[q].merged, noncausal: sim.reps[r].noncausal || sim.reps[q].noncausal };
                let routes_differ = sim.reps[r].order != sim.reps[q].order;
                if let Err(f) = judge_eq(&sim, stats, &sim.reps[r].st, &sim.reps[q].st, know, &lin, format!("r{r} and r{q} learned the same set of updates but")) {
                    return Err(fail_with(&sim, stats, f));
                }
                if routes_differ && partial_cover(&sim, know) {
                    nontrivial = true;
                }
            }
        }
        // ... and against an ops-only twin fed in another order respecting the discipline
        let respect = if sim.closed(know) { Disc::Causal } else if sim.fifo_closed(know) && S::NEEDS != Disc::Causal { Disc::Fifo } else if S::NEEDS == Disc::Any { Disc::Any } else { continue };
        let mut picks = plan.settle.clone();
        let k = si % picks.len();
        picks.rotate_left(k);
        let (twin, order) = sim.replay_order(know, &picks, respect);
        let lin = lineage(&sim, r);
        if let Err(f) = judge_eq(&sim, stats, &sim.reps[r].st, &twin, know, &lin, format!("r{r} and a fresh replica fed the same updates one by one in order {order:?}")) {
            return Err(fail_with(&sim, stats, f));
        }
        if (sim.reps[r].merged || order.iter().map(|x| *x as i32).collect::<Vec<_>>() != sim.reps[r].order) && partial_cover(&sim, know) {
            nontrivial = true;
        }
        // (ii) no residue once every known remove is fully covered by what is known
        if !pending_remove(&sim, know) {
            let mut res = Vec::new();
            residue(&to_tree(&sim.reps[r].st), "", &mut res);
            stats.observations += 1;
            if !res.is_empty() {
                let ex = if stats.strict { None } else { explain_eq(&sim, know, &lin, eq_ex) };
                match ex {
                    Some(c) => stats.exempt(c),
                    None => {
                        let f = Fail::new(format!("r{r} knows every update its removes observed, but keeps residue: {res:?}\n   state {}", to_tree(&sim.reps[r].st)));
                        return Err(fail_with(&sim, stats, f));
                    }
                }
            }
            if let Some(canon) = canonical(&sim, know) {
                if let Err(f) = judge_eq(&sim, stats, &sim.reps[r].st, &canon, know, &lin, format!("r{r} and the state rebuilt from just the replica clock and the surviving elements with their witnesses")) {
                    return Err(fail_with(&sim, stats, f));
                }
            }
        }
    }
    classify_common(&sim, stats);
    if nontrivial {
        stats.cur_nontrivial = true;
        stats.class("nontrivial");
    }
    finish(&sim, stats);
    Ok(())
}

/// the knowledge contains a remove that partially covers an element's / value's witnesses
/// (for types without removes: concurrent updates of one element)
fn partial_cover<S: Subject>(sim: &Sim<S>, know: Bits) -> bool {
    if !subject_has_removes::<S>() || S::name().starts_with("List") {
        return bits_iter(know).count() >= 3 && has_concurrent_same_elem(&sim.metas);
    }
    let ds = Store::build(&sim.metas, know);
    for r in &ds.rems {
        let targeted: Vec<_> = ds.leaves.iter().filter(|l| Store::targets(r, l)).collect();
        if targeted.iter().any(|l| covers(&r.ctx, l.dot)) && targeted.iter().any(|l| !covers(&r.ctx, l.dot)) {
            return true;
        }
    }
    false
}

fn add<S: Subject>(jobs: &mut Vec<Box<dyn JobT>>, variant: &str, disc: Disc, w: Weights, eq_ex: &'static [Class], q: u64, t: u64, floor: f64) {
    let pc = PlanCfg::new(w).steps(6, 28).editors(2, 4).observers(0, 2);
    let pc = pc.long_share(S::LONG);
    let ctx = Ctx::new(disc).newest();
    let label = format!("{}/{:?}/{variant}", S::name(), disc);
    jobs.push(job(label, q, t, { let pc = pc.clone(); move || plan_strategy(&pc) }, move |p: &Plan, st: &mut Stats| check_equal_state::<S>(p, &ctx, st, eq_ex)).decoder({ let pc = pc.clone(); move |d: &[u8]| decode_plan(&pc, d) })
            .encoder({ let pc = pc.clone(); move |t: &Plan| encode_plan(&pc, t) })
            .floor("nontrivial", floor).boxed());
}

pub fn property() -> Property {
    let mut jobs: Vec<Box<dyn JobT>> = Vec::new();
    let ops = || Weights::ops_only().with_redeliver(14);
    let mixed = || Weights::mixed().with_redeliver(10);
    add::<SOrswot>(&mut jobs, "ops", Disc::Causal, ops(), &[], 15000, 150_000, 0.03);
    add::<SOrswotBig>(&mut jobs, "ops", Disc::Causal, ops(), &[], 3750, 37500, 0.015);
    add::<SOrswot>(&mut jobs, "ops+merges", Disc::Fifo, mixed(), &[], 15000, 150_000, 0.03);
    add::<SOrswotBig>(&mut jobs, "ops+merges", Disc::Fifo, mixed(), &[], 3750, 37500, 0.015);
    add::<SMVReg>(&mut jobs, "ops+merges", Disc::Any, mixed(), &[], 15000, 150_000, 0.03);
    add::<MapOrswot>(&mut jobs, "ops", Disc::Causal, ops(), &[Class::T4], 15000, 150_000, 0.03);
    add::<MapOrswotBig>(&mut jobs, "ops", Disc::Causal, ops(), &[Class::T4], 3750, 37500, 0.015);
    add::<MapOrswot>(&mut jobs, "ops+merges", Disc::Causal, mixed(), &[Class::T1, Class::T4], 15000, 150_000, 0.03);
    add::<MapOrswotBig>(&mut jobs, "ops+merges", Disc::Causal, mixed(), &[Class::T1, Class::T4], 3750, 37500, 0.015);
    add::<MapMapOrswot>(&mut jobs, "ops", Disc::Causal, ops(), &[Class::T4], 12000, 100_000, 0.03);
    add::<MapMVReg>(&mut jobs, "ops", Disc::Causal, ops(), &[Class::T2, Class::T2b], 15000, 150_000, 0.03);
    add::<MapMVRegBig>(&mut jobs, "ops", Disc::Causal, ops(), &[Class::T2, Class::T2b], 3750, 37500, 0.015);
    add::<MapMVReg>(&mut jobs, "ops+merges", Disc::Causal, mixed(), &[Class::T1, Class::T2, Class::T2b, Class::T5], 15000, 150_000, 0.03);
    add::<MapMVRegBig>(&mut jobs, "ops+merges", Disc::Causal, mixed(), &[Class::T1, Class::T2, Class::T2b, Class::T5], 3750, 37500, 0.015);
    add::<MapMapMVReg>(&mut jobs, "ops", Disc::Causal, ops(), &[Class::T2, Class::T2b, Class::T4], 12000, 100_000, 0.03);
    add::<SList>(&mut jobs, "ops", Disc::Causal, ops(), &[], 9000, 60_000, 0.03);
    add::<SGList>(&mut jobs, "ops+merges", Disc::Any, mixed(), &[], 6000, 40_000, 0.03);
    add::<SMerkle>(&mut jobs, "ops+merges", Disc::Any, mixed(), &[], 6000, 40_000, 0.03);
    add::<SVClock>(&mut jobs, "ops+merges", Disc::Any, mixed(), &[], 3000, 20_000, 0.03);
    add::<SGCounter>(&mut jobs, "ops+merges", Disc::Any, mixed(), &[], 3000, 20_000, 0.03);
    add::<SPNCounter>(&mut jobs, "ops+merges", Disc::Any, mixed(), &[], 3000, 20_000, 0.03);
    add::<SGSet>(&mut jobs, "ops+merges", Disc::Any, mixed(), &[], 3000, 20_000, 0.03);
    add::<SLww>(&mut jobs, "ops+merges", Disc::Any, mixed(), &[], 3000, 20_000, 0.03);
    add::<SMax>(&mut jobs, "ops+merges", Disc::Any, mixed(), &[], 3000, 20_000, 0.03);
    add::<SMin>(&mut jobs, "ops+merges", Disc::Any, mixed(), &[], 3000, 20_000, 0.03);
    Property {
        id: "C20",
        rule: "C01/C03 histories (ops only; ops+merges; duplicates) under every type's documented discipline. (i) After every step the affected replica must be == (both directions; a panic inside == is a failure) to every replica with the same knowledge set and to a fresh replica fed the same updates one by one in another generated order. (ii) Whenever every remove the replica knows is fully covered by the dots it knows (model), its serde state tree must show no residue at any depth (every pending-remove table empty, no member/key/value with an empty clock) and, for top-level Orswot and MVReg, the state must == the canonical state rebuilt from the model (replica clock + surviving elements with their exact witnesses, built via Deserialize). Non-trivial = the two compared states learned the same set through different routes (different op orders, or ops vs merges) and the set contains a remove that covers some but not all witnesses of what it targets (types without removes: >=3 updates with concurrent ones on one element); distinct = distinct Plan hash.".into(),
        assumptions: vec!["Map is explored under causal delivery here (non-causal Map states are C08's subject)".into(), "exemptions (known findings), counted: `==`/residue on Map<_,MVReg> where MAP-T2 / MAP-T2b / MAP-T5 triggers hold for some key; on Map<_,Orswot> where MAP-T4 (nested remove vs concurrent key remove) or MAP-T1 (merged lineage) hold; top-level types are strict".into()],
        jobs,
    }
}
