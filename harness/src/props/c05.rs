//! C05 — Map keys are observed-remove; removing a key resets only what was seen.
use super::exempt::Class;
use super::generic::*;
use crate::engine::*;
use crate::plan::*;
use crate::sim::*;
use crate::subject::map::*;

/// key remove concurrent with an update of the same key by another actor that the remover had
/// not seen, observed at a replica that knows both
pub fn partial_key_remove<S: Subject>(sim: &Sim<S>) -> bool {
    let ms = &sim.metas;
    for rho in ms {
        let Sem::MapRm { ctx, keys } = &rho.sem else { continue };
        if ctx.is_empty() {
            continue;
        }
        for u in ms {
            if let Sem::MapUp { key, dot, .. } = &u.sem {
                if keys.contains(key) && u.author != rho.author && !has(rho.deps, u.id) && !covers(ctx, *dot) && sim.reps.iter().any(|r| has(r.know, rho.id) && has(r.know, u.id)) {
                    return true;
                }
            }
        }
    }
    false
}

fn add<S: Subject>(jobs: &mut Vec<Box<dyn JobT>>, variant: &str, w: Weights, ex: &[Class], q: u64, t: u64) {
    let pc = PlanCfg::new(w).steps(4, 28);
    let pc = pc.long_share(S::LONG);
    let ctx = Ctx::new(Disc::Causal).ex(ex);
    let label = format!("{}/causal/{variant}", S::name());
    jobs.push(
        job(label, q, t, { let pc = pc.clone(); move || plan_strategy(&pc) }, move |p: &Plan, st: &mut Stats| check_model::<S>(p, &ctx, st, &partial_key_remove::<S>, "Map read differs from the observed-remove / reset-remove specification"))
            .decoder({ let pc = pc.clone(); move |d: &[u8]| decode_plan(&pc, d) })
            .encoder({ let pc = pc.clone(); move |t: &Plan| encode_plan(&pc, t) })
            .floor("nontrivial", 0.02)
            .boxed(),
    );
}

pub fn property() -> Property {
    let mut jobs: Vec<Box<dyn JobT>> = Vec::new();
    // strict sub-domains: no exemption active at all
    add::<MapOrswot>(&mut jobs, "ops (strict)", Weights::ops_only(), &[], 30000, 400_000);
    add::<MapOrswotBig>(&mut jobs, "ops (strict)", Weights::ops_only(), &[], 7500, 100000);
    add::<MapMapOrswot>(&mut jobs, "ops (strict)", Weights::ops_only(), &[], 24000, 300_000);
    // MVReg leaves: MAP-T2 exempted per key (extra written values only)
    add::<MapMVReg>(&mut jobs, "ops", Weights::ops_only(), &[Class::T2], 30000, 400_000);
    add::<MapMVRegBig>(&mut jobs, "ops", Weights::ops_only(), &[Class::T2], 7500, 100000);
    add::<MapMapMVReg>(&mut jobs, "ops", Weights::ops_only(), &[Class::T2], 24000, 300_000);
    // with merges and stale merges: MAP-T1 (+T5 for MVReg leaves)
    add::<MapOrswot>(&mut jobs, "ops+merges+stale", Weights::mixed(), &[Class::T1], 24000, 300_000);
    add::<MapOrswotBig>(&mut jobs, "ops+merges+stale", Weights::mixed(), &[Class::T1], 6000, 75000);
    add::<MapMapOrswot>(&mut jobs, "ops+merges+stale", Weights::mixed(), &[Class::T1], 18000, 200_000);
    add::<MapMVReg>(&mut jobs, "ops+merges+stale", Weights::mixed(), &[Class::T1, Class::T2, Class::T5], 24000, 300_000);
    add::<MapMVRegBig>(&mut jobs, "ops+merges+stale", Weights::mixed(), &[Class::T1, Class::T2, Class::T5], 6000, 75000);
    add::<MapMapMVReg>(&mut jobs, "ops+merges+stale", Weights::mixed(), &[Class::T1, Class::T2, Class::T5], 18000, 200_000);
    Property {
        id: "C05",
        rule: "Plans of Map edits built from real reads (update with nested add / add_all / nested rm from the nested contains() / nested write / nested-map update / nested-map rm; key rm from get(k); add contexts from read_ctx/get/len/is_empty) on Map<u8,Orswot>, Map<u8,MVReg>, Map<u8,Map<u8,Orswot>>, Map<u8,Map<u8,MVReg>> with 3 keys, 2 nested keys, 2 members (and, in quarter-budget extra jobs, Map<u8,Orswot> / Map<u8,MVReg> over 12 keys with nested sets over 9 members, 35 % long histories: maps of 6-12 keys), 2-4 editors (+0-1 observer), causal op delivery with duplicates, and (second group) merges and stale-snapshot merges; after EVERY step the affected replica's keys(), get(k).val (nested content at every depth), key witnesses and map clock are compared with the recursive dot-store specification computed from its knowledge set. Non-trivial = the history has a key remove concurrent with an update of that key by another actor which the remover had not seen, and some replica knows both; distinct = distinct Plan hash.".into(),
        assumptions: vec![
            "each actor confined to one replica; contexts derived from real reads of the same data they edit".into(),
            "causal delivery (per-actor-order delivery of Map is explored by C08)".into(),
            "exemptions (known findings), per key and counted: MAP-T2 (MVReg leaves: key remove covers a write's dot but not its whole context; only extra written values tolerated), MAP-T1 (merged lineage: same actor updates a key before and after a key remove covering only the first), MAP-T5 (merged lineage, MVReg leaves: extra written values only). The '(strict)' jobs have no exemption.".into(),
        ],
        jobs,
    }
}
