//! C11 — counters, LWW/Max/Min registers and GSet compute their exact aggregate.
use super::common::*;
use super::generic::*;
use crate::engine::*;
use crate::plan::*;
use crate::sim::*;
use crate::subject::simple::*;
use crdts::LWWReg;
use num::BigInt;

/// model comparison after every step + per-type extras (monotone counter, LWW conflict flag)
fn check_aggregate<S: Subject>(plan: &Plan, ctx: &Ctx, stats: &mut Stats) -> Result<(), Fail> {
    let mut sim = new_sim::<S>(plan, &ctx.cfg, stats);
    let n = sim.reps.len();
    let mut last: Vec<Option<BigInt>> = vec![None; n];
    let mut overtaken = false;
    let mut dup = false;
    let mut merged = false;
    for step in &plan.steps {
        let ev = sim.step(step);
        match &ev {
            Event::Delivered { r, op, dup: d, before_know, .. } => {
                if *d {
                    dup = true;
                }
                // an op of an actor delivered before an earlier op of the same actor
                if sim.earlier_of_author(*op) & !before_know != 0 {
                    overtaken = true;
                }
                let _ = r;
            }
            Event::Merged { .. } => merged = true,
            _ => {}
        }
        if let Some(r) = affected(&ev) {
            let got = S::observe(&sim.reps[r].st);
            let want = S::predict(&sim.metas, sim.reps[r].know).expect("model");
            stats.observations += want.len() as u64;
            let d = diff_on_model(&got, &want);
            if let Err(f) = judge(&sim, stats, ctx, sim.reps[r].know, &lineage(&sim, r), &d, "aggregate differs from the arithmetic model", r, &got, &want) {
                return Err(fail_with(&sim, stats, f));
            }
            if S::NAME == "GCounter<u8>" {
                let v: BigInt = got["value"].as_str().unwrap().parse().unwrap();
                if let Some(prev) = &last[r] {
                    if v < *prev {
                        return Err(fail_with(&sim, stats, Fail::new(format!("GCounter read at r{r} decreased from {prev} to {v}"))));
                    }
                }
                last[r] = Some(v);
            }
        }
    }
    classify_common(&sim, stats);
    // a counter whose model value needs more than 64 bits at some replica (the reason reads are BigUint / BigInt)
    if S::NAME.contains("Counter") {
        let lim = BigInt::from(u64::MAX);
        let mut beyond = false;
        for r in 0..n {
            let want = S::predict(&sim.metas, sim.reps[r].know).expect("model");
            // per-side totals: a PNCounter can have P or N beyond 2^64 while the difference is small
            let big = |c: &serde_json::Value| -> bool {
                c.as_object().map(|m| m.values().filter_map(|v| v.as_u64().map(BigInt::from).or_else(|| v.as_str().and_then(|s| s.parse::<BigInt>().ok()))).sum::<BigInt>() > lim).unwrap_or(false)
            };
            let st = &want["state"];
            if big(st) || big(&st["p"]) || big(&st["n"]) {
                beyond = true;
            }
        }
        if beyond {
            stats.class("some replica's counter total (or P / N side) exceeds u64::MAX");
        }
    }
    if overtaken {
        stats.class("an op delivered before an earlier op of the same actor");
    }
    if actors_with_dots(&sim.metas).max(sim.metas.iter().map(|m| m.author).collect::<std::collections::BTreeSet<_>>().len()) >= 2 && overtaken && dup && merged {
        stats.cur_nontrivial = true;
        stats.class("nontrivial");
    }
    finish(&sim, stats);
    Ok(())
}

fn add<S: Subject>(jobs: &mut Vec<Box<dyn JobT>>, q: u64, t: u64) {
    let w = Weights { edit: 34, deliver: 30, redeliver: 12, merge: 12, snapshot: 5, merge_snapshot: 7, save_restore: 0, probe: 0 };
    let pc = PlanCfg::new(w).steps(8, 32).editors(2, 5).observers(0, 1);
    let ctx = Ctx::new(Disc::Any).newest();
    jobs.push(mk_job(format!("{}/any-order/ops+dups+merges", S::name()), q, t, pc, ctx, check_aggregate::<S>).floor("nontrivial", 0.05).boxed());
}

#[derive(Clone, Debug, Hash, serde::Serialize, serde::Deserialize)]
struct LwwCase {
    writes: Vec<(u16, u8)>,
    probe: (u16, u8),
}

pub fn property() -> Property {
    let mut jobs: Vec<Box<dyn JobT>> = Vec::new();
    add::<SGCounter>(&mut jobs, 48000, 300_000);
    add::<SPNCounter>(&mut jobs, 48000, 300_000);
    add::<SGSet>(&mut jobs, 36000, 200_000);
    add::<SLww>(&mut jobs, 48000, 300_000);
    add::<SMax>(&mut jobs, 36000, 200_000);
    add::<SMin>(&mut jobs, 36000, 200_000);
    jobs.push(lww_flag_job(120000, 400_000));
    Property {
        id: "C11",
        rule: "Plans of inc/dec/inc_many/dec_many (steps in {0,1,2,3,7,1000,65536,2^32,2^62,2^63,u64::MAX/3, fill-up; one actor's total kept below u64::MAX-2^40, sums over actors beyond 2^64}), register writes with model-issued unique markers / values incl. i64::MIN/MAX, GSet inserts, by 2-5 actors, delivered in ANY order (newest-first biased) with duplicates, merges and stale-snapshot merges; after every step the affected replica's read is compared with arithmetic over its knowledge set (GCounter = sum over actors of the largest running total known, also never decreasing along a replica's history; PNCounter = that for P minus that for N as BigInt; Max/Min = extreme of applied values and the initial 0; LWWReg = value of the greatest marker; GSet = union, contains consistent) and the full internal state tree is compared too; separate job: LWWReg validate_update/validate_op/validate_merge flag exactly equal-marker/different-value. Non-trivial = >=2 actors, an op delivered before an earlier op of the same actor, >=1 duplicate and >=1 merge; distinct = distinct Plan hash.".into(),
        assumptions: vec!["counter running totals stay far below u64::MAX (overflow of a running total is outside the documented domain)".into(), "LWWReg markers are unique per write (model-issued)".into()],
        jobs,
    }
}

pub fn lww_flag_job(q: u64, t: u64) -> Box<dyn JobT> {
    use proptest::prelude::*;
    // LWWReg conflict flag: equal marker & different value is flagged, and nothing else
    job(
            "LWWReg/validate flags exactly equal-marker/different-value",
            q,
            t,
            || strat((proptest::collection::vec((0u16..4, 0u8..6), 0..8), (0u16..4, 0u8..6)).prop_map(|(writes, probe)| LwwCase { writes, probe })),
            |c: &LwwCase, st: &mut Stats| {
                let mut reg: LWWReg<u16, u8> = LWWReg::default();
                let mut best: (u8, u16) = (0, 0);
                for (v, m) in &c.writes {
                    reg.update(*v, *m);
                    if *m > best.0 {
                        best = (*m, *v);
                    }
                    if (reg.marker, reg.val) != best {
                        return Err(Fail::new(format!("after update({v},{m}) register holds ({},{}) but first-greatest-marker write is {best:?}", reg.val, reg.marker)));
                    }
                }
                let (pv, pm) = c.probe;
                let want_conflict = pm == reg.marker && pv != reg.val;
                let got = reg.validate_update(&pv, &pm).is_err();
                let got_op = crdts::CmRDT::validate_op(&reg, &LWWReg::new(pv, pm)).is_err();
                let got_merge = crdts::CvRDT::validate_merge(&reg, &LWWReg::new(pv, pm)).is_err();
                st.observations += 3;
                if got != want_conflict || got_op != want_conflict || got_merge != want_conflict {
                    return Err(Fail::new(format!("register ({},{}) probe ({pv},{pm}): conflict flagged {got}/{got_op}/{got_merge}, expected {want_conflict}", reg.val, reg.marker)));
                }
                if want_conflict || pm == reg.marker {
                    st.cur_nontrivial = true;
                    st.class("nontrivial");
                }
                if st.trace {
                    st.samples.push(serde_json::json!({"writes(val,marker)": c.writes, "probe(val,marker)": c.probe}));
                }
                Ok(())
            },
        )
        .floor("nontrivial", 0.05)
        .boxed()
}
