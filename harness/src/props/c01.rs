//! C01 — replicas that applied the same ops converge (causal delivery), all 13 types / 16 instantiations.
use super::exempt::Class;
use super::generic::*;
use crate::engine::*;
use crate::plan::*;
use crate::sim::*;
use crate::subject::{lists::*, map::*, merkle::*, mvreg::*, orswot::*, simple::*};

fn add<S: Subject>(jobs: &mut Vec<Box<dyn JobT>>, q: u64, t: u64, ex: &[Class], floor: f64) {
    let pc = PlanCfg::new(Weights::ops_only()).steps(5, 28).observers(0, 2);
    let pc = pc.long_share(S::LONG);
    let ctx = Ctx::new(Disc::Causal).ex(ex);
    jobs.push(mk_job(format!("{}/causal/ops", S::name()), q, t, pc, ctx, check_converge::<S>).floor("nontrivial", floor).boxed());
}

pub fn property() -> Property {
    let mut jobs: Vec<Box<dyn JobT>> = Vec::new();
    add::<SOrswot>(&mut jobs, 24000, 300_000, &[], 0.03);
    add::<SOrswotBig>(&mut jobs, 6000, 75000, &[], 0.015);
    add::<SMVReg>(&mut jobs, 24000, 300_000, &[], 0.03);
    add::<MapOrswot>(&mut jobs, 24000, 300_000, &[], 0.03);
    add::<MapOrswotBig>(&mut jobs, 6000, 75000, &[], 0.015);
    add::<MapMapOrswot>(&mut jobs, 18000, 200_000, &[], 0.03);
    add::<MapMVReg>(&mut jobs, 24000, 300_000, &[Class::T2], 0.03);
    add::<MapMVRegBig>(&mut jobs, 6000, 75000, &[Class::T2], 0.015);
    add::<MapMapMVReg>(&mut jobs, 18000, 200_000, &[Class::T2], 0.03);
    add::<SList>(&mut jobs, 12000, 100_000, &[], 0.03);
    add::<SGList>(&mut jobs, 12000, 100_000, &[], 0.03);
    add::<SMerkle>(&mut jobs, 12000, 100_000, &[], 0.03);
    add::<SVClock>(&mut jobs, 9000, 60_000, &[], 0.03);
    add::<SGCounter>(&mut jobs, 9000, 60_000, &[], 0.03);
    add::<SPNCounter>(&mut jobs, 9000, 60_000, &[], 0.03);
    add::<SGSet>(&mut jobs, 9000, 60_000, &[], 0.03);
    add::<SLww>(&mut jobs, 9000, 60_000, &[], 0.03);
    add::<SMax>(&mut jobs, 9000, 60_000, &[], 0.03);
    add::<SMin>(&mut jobs, 9000, 60_000, &[], 0.03);
    Property {
        id: "C01",
        rule: "Plans of API edits (each built from a real read at its origin and applied there first) at 2-4 editors + 0-2 observers, op-by-op interleaved causal deliveries, duplicates, strict subsets delivered; no merges. After every step the affected replica is compared (all reads and all contexts) with every replica holding the same knowledge set; at the end every replica is compared with a fresh replica fed the same ops in a different generated causal order, and two fresh replicas fed ALL ops in two further orders are compared. Non-trivial = two (replica or twin) states with the same knowledge (>=2 ops) reached through different delivery orders AND >=1 pair of concurrent ops on the same element/key AND (for types with removes) >=1 remove whose context covers another actor's dot; distinct = distinct Plan hash.".into(),
        assumptions: vec!["each actor confined to one replica; ops applied at origin before the next edit".into(), "delivery is causal (an op is delivered only after every op its author knew)".into(), "Map<_,MVReg>: mismatches at a key for which the MAP-T2 trigger holds (a key remove covering a write's dot but not its whole context) are a recorded known finding and exempted per key".into()],
        jobs,
    }
}
