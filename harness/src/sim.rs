//! Replicated-history simulator: drives the real library the way the README prescribes (every op is
//! built from a real read at its origin replica and applied there first), under an explicit generated
//! delivery / merge / fault schedule, and keeps per replica the *knowledge set* K(r) of op ids.
use crate::plan::{idx, Plan, Step};
use serde::de::DeserializeOwned;
use serde::Serialize;
use serde_json::Value;
use std::collections::BTreeMap;
use std::fmt::Debug;

pub type Bits = u128;
pub const MAX_OPS: usize = 120;
pub type Clock = BTreeMap<u8, u64>;
pub type DotT = (u8, u64);
pub type Obs = BTreeMap<String, Value>;

#[inline]
pub fn bit(i: usize) -> Bits {
    1u128 << i
}
#[inline]
pub fn has(b: Bits, i: usize) -> bool {
    b & bit(i) != 0
}
pub fn bits_iter(b: Bits) -> impl Iterator<Item = usize> {
    (0..128usize).filter(move |i| has(b, *i))
}
pub fn bits_vec(b: Bits) -> Vec<usize> {
    bits_iter(b).collect()
}

#[derive(Clone, Copy, PartialEq, Eq, Debug, Serialize, serde::Deserialize)]
pub enum Disc {
    /// op eligible at r iff every op its author knew when creating it is known to r
    Causal,
    /// op eligible at r iff all earlier ops of the same author are known to r
    Fifo,
    /// no constraint
    Any,
}

/// What an op means, extracted from the op value the API returned (plus the acting actor).
#[derive(Clone, Debug, PartialEq, Serialize)]
pub enum Sem {
    None,
    Dot { dot: DotT },
    Pn { dot: DotT, pos: bool },
    /// counter increment / decrement REQUESTED through the API (steps), with the dot the API returned
    Inc { dot: DotT, steps: u64, pos: bool },
    Val { v: i64 },
    Lww { val: i64, marker: i64 },
    SetAdd { dot: DotT, members: Vec<u8> },
    SetRm { ctx: Clock, members: Vec<u8> },
    Put { dot: DotT, ctx: Clock, val: u16 },
    MapUp { dot: DotT, key: u8, inner: Box<Sem> },
    MapRm { ctx: Clock, keys: Vec<u8> },
    ListIns { tag: u32, dot: DotT },
    ListDel { tag: u32, dot: DotT },
    GIns { tag: u32 },
    Merkle { hash: [u8; 32], children: Vec<[u8; 32]> },
}

impl Sem {
    /// the dot this op consumes, if any
    pub fn dot(&self) -> Option<DotT> {
        match self {
            Sem::Dot { dot } | Sem::Pn { dot, .. } | Sem::Inc { dot, .. } | Sem::SetAdd { dot, .. } | Sem::Put { dot, .. } | Sem::MapUp { dot, .. } | Sem::ListIns { dot, .. } | Sem::ListDel { dot, .. } => Some(*dot),
            _ => None,
        }
    }
    pub fn is_remove(&self) -> bool {
        match self {
            Sem::SetRm { .. } | Sem::MapRm { .. } | Sem::ListDel { .. } => true,
            Sem::MapUp { inner, .. } => inner.is_remove(),
            _ => false,
        }
    }
}

#[derive(Clone, Debug)]
pub struct OpMeta {
    pub id: usize,
    /// replica index of the author
    pub author: usize,
    pub actor: Option<u8>,
    /// index among the author's ops
    pub seq: usize,
    /// K(author) just before the op was created
    pub deps: Bits,
    pub sem: Sem,
    /// short description of the API call that produced it
    pub call: String,
}

/// Deterministic source of "model-issued" unique values / markers.
#[derive(Clone, Debug, Default)]
pub struct Aux {
    pub next: u32,
    /// hashes of all MerkleReg nodes written so far in this case
    pub hashes: Vec<[u8; 32]>,
    /// wide history (more than 6 replicas): subjects concentrate edits on one hot key / member so that many
    /// actors meet on the same element
    pub wide: bool,
    /// big-alphabet Map subject: nested sets draw from 8 members instead of 2
    pub big: bool,
}
impl Aux {
    pub fn fresh(&mut self) -> u32 {
        self.next += 1;
        self.next
    }
}

#[derive(Clone, Copy, Debug)]
pub struct EditArgs {
    pub kind: u16,
    pub a: u16,
    pub b: u16,
    pub c: u16,
    pub d: u16,
    pub e: u16,
    pub f: u16,
}
impl EditArgs {
    /// arguments for the next nesting level
    pub fn shift(self) -> EditArgs {
        EditArgs { kind: self.b, a: self.d, b: self.e, c: self.c, d: self.f, e: self.kind.rotate_left(5) ^ 0x5a5a, f: self.a.rotate_left(7) ^ 0x1234 }
    }
}

/// One read entry point probed for C07.
#[derive(Clone, Debug)]
pub struct CtxProbe {
    pub entry: String,
    /// element this read is about (None = whole state)
    pub elem: Option<String>,
    pub add_clock: Clock,
    pub rm_clock: Clock,
    /// (actor, derived dot, derived add clock) for every probed actor
    pub derived: Vec<(u8, DotT, Clock)>,
    pub derived_rm: Clock,
    /// anything else wrong with this read (reported as a violation by C07)
    pub note: Option<String>,
}

/// The same read taken through `ReadCtx::split()`: the value must be the value of the read and the remaining
/// `ReadCtx<()>` must carry the same two clocks and derive the same contexts.
pub fn split_probe<V: PartialEq>(entry: &str, elem: Option<String>, read: &dyn Fn() -> crdts::ctx::ReadCtx<V, u8>, actors: &[u8]) -> CtxProbe {
    let whole = read();
    let (val, c) = read().split();
    let derived = actors
        .iter()
        .map(|a| {
            let (_, c) = read().split();
            let ac = c.derive_add_ctx(*a);
            (*a, (ac.dot.actor, ac.dot.counter), vclock_to(&ac.clock))
        })
        .collect();
    let (_, c2) = read().split();
    let mut note = None;
    // (`==` of a Map value holding an MVReg with duplicated entries -- known finding MAP-T5 -- panics inside MVReg::eq:
    // that is C20's subject, not a statement about split())
    if std::panic::catch_unwind(std::panic::AssertUnwindSafe(|| val != whole.val)).unwrap_or(false) {
        note = Some("split() changed the value".to_string());
    }
    if c.add_clock != whole.add_clock || c.rm_clock != whole.rm_clock {
        note = Some(format!("split() changed the clocks: add {:?} -> {:?}, rm {:?} -> {:?}", vclock_to(&whole.add_clock), vclock_to(&c.add_clock), vclock_to(&whole.rm_clock), vclock_to(&c.rm_clock)));
    }
    CtxProbe { entry: format!("{entry}.split()"), elem, add_clock: vclock_to(&c.add_clock), rm_clock: vclock_to(&c.rm_clock), derived, derived_rm: vclock_to(&c2.derive_rm_ctx().clock), note }
}

pub trait Subject: Sized + 'static {
    type St: Clone + PartialEq + Debug + Serialize + DeserializeOwned;
    type Op: Clone + Debug + Serialize + DeserializeOwned;
    const NAME: &'static str;
    fn name() -> String {
        Self::NAME.to_string()
    }
    /// implements CvRDT
    const MERGE: bool;
    /// weakest delivery discipline under which the documentation promises convergence
    const NEEDS: Disc;
    /// share (%) of long histories this subject wants (see PlanCfg::long_share)
    const LONG: u32 = 4;
    fn init() -> Self::St;
    fn apply(s: &mut Self::St, op: Self::Op);
    fn merge(_s: &mut Self::St, _o: Self::St) {
        unreachable!("no merge")
    }
    /// Build an op through the public API from a real read of `s`.  None = not applicable.
    fn edit(s: &Self::St, actor: Option<u8>, e: EditArgs, aux: &mut Aux) -> Option<(Self::Op, Sem, String)>;
    /// A remove built NOW at `s` from a context that was read EARLIER at the same replica (`old` is a
    /// remembered earlier state of this replica): the README's "stale Rm context".  None = not supported.
    fn edit_stale_rm(_s: &Self::St, _old: &Self::St, _e: EditArgs) -> Option<(Self::Op, Sem, String)> {
        None
    }
    /// Everything a user can read, normalised (keyed by observation point).
    fn observe(s: &Self::St) -> Obs;
    /// Prediction of `observe` from the knowledge set alone.  None = no model for this subject.
    fn predict(_metas: &[OpMeta], _know: Bits) -> Option<Obs> {
        None
    }
    /// Ok / Err(rendered error)
    fn validate_op(_s: &Self::St, _op: &Self::Op) -> Result<(), String> {
        Ok(())
    }
    /// per present key: (key, entry witness = get(k).rm_clock, witnesses of the nested members read through the nested value's own
    /// contains(m).rm_clock); empty for subjects without nested sets (C17 misuse oracle for nested members)
    fn nested_witnesses(_s: &Self::St) -> Vec<(String, Clock, Vec<(String, u8, u64)>)> {
        Vec::new()
    }
    fn validate_merge(_a: &Self::St, _b: &Self::St) -> Result<(), String> {
        Ok(())
    }
    /// read entry points and derived contexts (C07); empty for context-free types
    fn ctx_probes(_s: &Self::St, _actors: &[u8]) -> Vec<CtxProbe> {
        Vec::new()
    }
    const RESET: bool = false;
    fn reset_remove(_s: &mut Self::St, _c: &Clock) {
        unreachable!("no reset_remove")
    }
}

pub struct Rep<S: Subject> {
    pub st: S::St,
    pub know: Bits,
    /// this state's lineage contains a merge
    pub merged: bool,
    /// this state's lineage ever held a knowledge set that was not causally closed
    pub noncausal: bool,
    /// ops in the order they were first learned one by one (edits and deliveries; merges add -1 markers)
    pub order: Vec<i32>,
    pub actor: Option<u8>,
}

pub struct Snap<S: Subject> {
    pub st: S::St,
    pub know: Bits,
    pub merged: bool,
    pub noncausal: bool,
    pub from: usize,
}

pub enum Event<S: Subject> {
    Skipped,
    Edited { r: usize, op: usize, before: S::St },
    Delivered { r: usize, op: usize, dup: bool, before: S::St, before_know: Bits },
    Merged { dst: usize, src_know: Bits, src_st: S::St, before: S::St, before_know: Bits, stale: bool },
    Snapshotted { r: usize },
    Restored { r: usize, before: S::St },
    SaveFailed { r: usize, err: String },
    Probe { a: u16, b: u16, c: u16, d: u16 },
}

pub struct Sim<S: Subject> {
    pub reps: Vec<Rep<S>>,
    pub ops: Vec<S::Op>,
    pub metas: Vec<OpMeta>,
    pub snaps: Vec<Snap<S>>,
    pub disc: Disc,
    pub aux: Aux,
    pub skipped: u64,
    pub executed: u64,
    pub trace: bool,
    pub log: Vec<String>,
    /// prefer the newest eligible op when delivering (makes removes overtake)
    pub newest_first: bool,
    /// restrict edits to replicas whose knowledge is causally closed
    pub edit_closed_only: bool,
    /// round-trip every op through serde_json before it is delivered (C19)
    pub serde_ops: bool,
    /// first op (de)serialisation problem, if any
    pub serde_error: Option<String>,
    /// treat SaveRestore steps as no-ops (the reference twin of C19)
    pub skip_restore: bool,
}

impl<S: Subject> Sim<S> {
    pub fn new(plan: &Plan, disc: Disc) -> Self {
        let mut reps = Vec::new();
        for i in 0..plan.editors.max(1) {
            reps.push(Rep { st: S::init(), know: 0, merged: false, noncausal: false, order: Vec::new(), actor: Some(plan.actor_of(i as usize)) });
        }
        for _ in 0..plan.observers {
            reps.push(Rep { st: S::init(), know: 0, merged: false, noncausal: false, order: Vec::new(), actor: None });
        }
        Sim {
            reps,
            ops: Vec::new(),
            metas: Vec::new(),
            snaps: Vec::new(),
            disc,
            aux: Aux { wide: plan.editors > 6, ..Aux::default() },
            skipped: 0,
            executed: 0,
            trace: false,
            log: Vec::new(),
            newest_first: false,
            edit_closed_only: false,
            serde_ops: false,
            serde_error: None,
            skip_restore: false,
        }
    }

    /// receiver choice: uniform for up to 6 replicas; with more replicas skewed (quadratically) towards the
    /// low-index "hub" replicas, so that some replicas learn of a dozen actors' updates
    fn hub(&self, r: u16, n: usize) -> usize {
        if n <= 6 {
            idx(r, n)
        } else {
            idx((((r as u32) * (r as u32)) >> 16) as u16, n)
        }
    }

    pub fn all_bits(&self) -> Bits {
        if self.ops.is_empty() {
            0
        } else {
            (!0u128) >> (128 - self.ops.len())
        }
    }

    /// all ops of `author` with seq < the given op's seq
    pub fn earlier_of_author(&self, op: usize) -> Bits {
        let m = &self.metas[op];
        let mut b = 0;
        for o in &self.metas[..op] {
            if o.author == m.author {
                b |= bit(o.id);
            }
        }
        b
    }

    pub fn eligible(&self, r: usize, op: usize, disc: Disc) -> bool {
        let k = self.reps[r].know;
        if has(k, op) {
            return false;
        }
        match disc {
            Disc::Any => true,
            Disc::Fifo => self.earlier_of_author(op) & !k == 0,
            Disc::Causal => self.metas[op].deps & !k == 0,
        }
    }

    /// is the knowledge set closed under the dependency relation?
    pub fn closed(&self, know: Bits) -> bool {
        bits_iter(know).all(|o| o < self.metas.len() && self.metas[o].deps & !know == 0)
    }
    /// closed under per-author order
    pub fn fifo_closed(&self, know: Bits) -> bool {
        bits_iter(know).all(|o| o < self.metas.len() && self.earlier_of_author(o) & !know == 0)
    }

    fn note(&mut self, f: impl FnOnce() -> String) {
        if self.trace {
            let s = f();
            self.log.push(s);
        }
    }

    pub fn do_edit(&mut self, r: usize, e: EditArgs) -> Option<usize> {
        if self.ops.len() >= MAX_OPS {
            return None;
        }
        if self.edit_closed_only && !self.closed(self.reps[r].know) {
            return None;
        }
        let actor = self.reps[r].actor;
        // sometimes: a remove whose context was read earlier at this replica (its latest remembered snapshot)
        let mut stale = None;
        if e.f % 5 == 0 {
            if let Some(snap) = self.snaps.iter().rev().find(|s| s.from == r) {
                stale = S::edit_stale_rm(&self.reps[r].st, &snap.st, e);
            }
        }
        let (op, sem, call) = match stale {
            Some(x) => x,
            None => S::edit(&self.reps[r].st, actor, e, &mut self.aux)?,
        };
        let id = self.ops.len();
        let seq = self.metas.iter().filter(|m| m.author == r).count();
        let deps = self.reps[r].know;
        self.metas.push(OpMeta { id, author: r, actor, seq, deps, sem, call: call.clone() });
        self.ops.push(op.clone());
        S::apply(&mut self.reps[r].st, op);
        self.reps[r].know |= bit(id);
        self.reps[r].order.push(id as i32);
        self.note(|| format!("r{r}: {call} => op#{id}"));
        Some(id)
    }

    /// record an op that a structured scenario built itself through the public API from a real read of
    /// replica `r` (applied at its origin at once)
    pub fn inject(&mut self, r: usize, op: S::Op, sem: Sem, call: String) -> usize {
        let actor = self.reps[r].actor;
        let id = self.ops.len();
        let seq = self.metas.iter().filter(|m| m.author == r).count();
        let deps = self.reps[r].know;
        self.metas.push(OpMeta { id, author: r, actor, seq, deps, sem, call: call.clone() });
        self.ops.push(op.clone());
        S::apply(&mut self.reps[r].st, op);
        self.reps[r].know |= bit(id);
        self.reps[r].order.push(id as i32);
        self.note(|| format!("r{r}: {call} => op#{id}"));
        id
    }

    pub fn deliver(&mut self, r: usize, op: usize) {
        let mut o = self.ops[op].clone();
        if self.serde_ops {
            match serde_json::to_string(&o) {
                Err(e) => {
                    if self.serde_error.is_none() {
                        self.serde_error = Some(format!("op#{op} cannot be serialised: {e}"));
                    }
                }
                Ok(text) => match serde_json::from_str::<S::Op>(&text) {
                    Err(e) => {
                        if self.serde_error.is_none() {
                            self.serde_error = Some(format!("op#{op} cannot be deserialised from {text}: {e}"));
                        }
                    }
                    Ok(back) => {
                        let again = serde_json::to_string(&back).unwrap_or_default();
                        if again != text && self.serde_error.is_none() {
                            self.serde_error = Some(format!("op#{op} changes when round-tripped: {text} -> {again}"));
                        }
                        o = back;
                    }
                },
            }
        }
        S::apply(&mut self.reps[r].st, o);
        if !has(self.reps[r].know, op) {
            self.reps[r].order.push(op as i32);
        }
        self.reps[r].know |= bit(op);
        if !self.reps[r].noncausal && !self.closed(self.reps[r].know) {
            self.reps[r].noncausal = true;
        }
    }

    pub fn step(&mut self, step: &Step) -> Event<S> {
        let n = self.reps.len();
        let ev = match *step {
            Step::Edit { r, kind, a, b, c, d, e, f } => {
                let r = idx(r, n);
                let before = self.reps[r].st.clone();
                match self.do_edit(r, EditArgs { kind, a, b, c, d, e, f }) {
                    Some(op) => Event::Edited { r, op, before },
                    None => Event::Skipped,
                }
            }
            Step::Deliver { r, pick } => {
                let r = self.hub(r, n);
                let el: Vec<usize> = (0..self.ops.len()).filter(|o| self.eligible(r, *o, self.disc)).collect();
                if el.is_empty() {
                    Event::Skipped
                } else {
                    let op = if self.newest_first && pick & 1 == 0 { *el.last().unwrap() } else { el[idx(pick, el.len())] };
                    let before = self.reps[r].st.clone();
                    let before_know = self.reps[r].know;
                    self.deliver(r, op);
                    self.note(|| format!("r{r} <- op#{op}"));
                    Event::Delivered { r, op, dup: false, before, before_know }
                }
            }
            Step::Redeliver { r, pick } => {
                let r = idx(r, n);
                let known = bits_vec(self.reps[r].know);
                if known.is_empty() {
                    Event::Skipped
                } else {
                    let op = known[idx(pick, known.len())];
                    let before = self.reps[r].st.clone();
                    let before_know = self.reps[r].know;
                    self.deliver(r, op);
                    self.note(|| format!("r{r} <- op#{op} (duplicate)"));
                    Event::Delivered { r, op, dup: true, before, before_know }
                }
            }
            Step::Merge { dst, src } => {
                let dst = self.hub(dst, n);
                let src = idx(src, n);
                if !S::MERGE || dst == src {
                    Event::Skipped
                } else {
                    let src_st = self.reps[src].st.clone();
                    let src_know = self.reps[src].know;
                    let before = self.reps[dst].st.clone();
                    let before_know = self.reps[dst].know;
                    S::merge(&mut self.reps[dst].st, src_st.clone());
                    self.reps[dst].know |= src_know;
                    self.reps[dst].merged = true;
                    self.reps[dst].order.push(-1);
                    let nc = self.reps[src].noncausal || !self.closed(self.reps[dst].know);
                    self.reps[dst].noncausal |= nc;
                    self.note(|| format!("r{dst} <- merge(state of r{src})"));
                    Event::Merged { dst, src_know, src_st, before, before_know, stale: false }
                }
            }
            Step::Snapshot { r } => {
                let r = idx(r, n);
                if self.snaps.len() >= 8 {
                    Event::Skipped
                } else {
                    let rep = &self.reps[r];
                    self.snaps.push(Snap { st: rep.st.clone(), know: rep.know, merged: rep.merged, noncausal: rep.noncausal, from: r });
                    let k = self.snaps.len() - 1;
                    self.note(|| format!("snapshot s{k} := state of r{r}"));
                    Event::Snapshotted { r }
                }
            }
            Step::MergeSnapshot { dst, pick } => {
                let dst = idx(dst, n);
                if !S::MERGE || self.snaps.is_empty() {
                    Event::Skipped
                } else {
                    let k = idx(pick, self.snaps.len());
                    let snap = Snap::<S> { st: self.snaps[k].st.clone(), know: self.snaps[k].know, merged: self.snaps[k].merged, noncausal: self.snaps[k].noncausal, from: self.snaps[k].from };
                    let before = self.reps[dst].st.clone();
                    let before_know = self.reps[dst].know;
                    S::merge(&mut self.reps[dst].st, snap.st.clone());
                    self.reps[dst].know |= snap.know;
                    self.reps[dst].merged = true;
                    self.reps[dst].order.push(-1);
                    let nc = snap.noncausal || !self.closed(self.reps[dst].know);
                    self.reps[dst].noncausal |= nc;
                    self.note(|| format!("r{dst} <- merge(snapshot s{k} of r{})", snap.from));
                    Event::Merged { dst, src_know: snap.know, src_st: snap.st, before, before_know, stale: true }
                }
            }
            Step::SaveRestore { r } if self.skip_restore => {
                let r = idx(r, n);
                Event::Snapshotted { r }
            }
            Step::SaveRestore { r } => {
                let r = idx(r, n);
                let before = self.reps[r].st.clone();
                match serde_json::to_string(&before) {
                    Err(e) => {
                        self.note(|| format!("r{r}: save failed: {e}"));
                        Event::SaveFailed { r, err: format!("serialize: {e}") }
                    }
                    Ok(text) => match serde_json::from_str::<S::St>(&text) {
                        Err(e) => Event::SaveFailed { r, err: format!("deserialize: {e} of {text}") },
                        Ok(st) => {
                            self.reps[r].st = st;
                            self.note(|| format!("r{r}: save + restore"));
                            Event::Restored { r, before }
                        }
                    },
                }
            }
            Step::Probe { a, b, c, d } => Event::Probe { a, b, c, d },
        };
        match ev {
            Event::Skipped => self.skipped += 1,
            _ => self.executed += 1,
        }
        ev
    }

    /// A fresh replica fed exactly the ops in `know`, in a linear extension of creation order
    /// chosen by `picks` (creation order is a linear extension of causality and of per-author order).
    /// `respect`: which order the extension must respect.
    pub fn replay(&self, know: Bits, picks: &[u16], respect: Disc) -> S::St {
        self.replay_order(know, picks, respect).0
    }

    pub fn replay_order(&self, know: Bits, picks: &[u16], respect: Disc) -> (S::St, Vec<i32>) {
        let mut st = S::init();
        let mut done: Bits = 0;
        let mut order = Vec::new();
        let mut remaining: Vec<usize> = bits_vec(know);
        let mut p = 0usize;
        while !remaining.is_empty() {
            let el: Vec<usize> = remaining
                .iter()
                .copied()
                .filter(|&o| match respect {
                    Disc::Any => true,
                    Disc::Fifo => (self.earlier_of_author(o) & know) & !done == 0,
                    Disc::Causal => (self.metas[o].deps & know) & !done == 0,
                })
                .collect();
            let pick = if picks.is_empty() { 0 } else { picks[p % picks.len()] };
            p += 1;
            let o = el[idx(pick, el.len())];
            S::apply(&mut st, self.ops[o].clone());
            done |= bit(o);
            order.push(o as i32);
            remaining.retain(|x| *x != o);
        }
        (st, order)
    }

    pub fn render(&self) -> Value {
        serde_json::json!({
            "subject": S::name(),
            "discipline": format!("{:?}", self.disc),
            "replicas": self.reps.iter().enumerate().map(|(i, r)| format!("r{i}{}", match r.actor { Some(a) => format!(" actor {a}"), None => " observer".into() })).collect::<Vec<_>>(),
            "history": self.log,
        })
    }
}

/// canonical rendering of an ordering error, built from its fields (independent of the crate's Debug impls)
pub fn render_dot_range(e: &crdts::DotRange<u8>) -> String {
    format!("DotRange {{ actor: {}, counter_range: {}..{} }}", e.actor, e.counter_range.start, e.counter_range.end)
}

pub fn clock_json(c: &Clock) -> Value {
    let mut m = serde_json::Map::new();
    for (a, n) in c {
        m.insert(a.to_string(), Value::from(*n));
    }
    Value::Object(m)
}

pub fn vclock_to(c: &crdts::VClock<u8>) -> Clock {
    c.dots.iter().map(|(a, n)| (*a, *n)).collect()
}
pub fn to_vclock(c: &Clock) -> crdts::VClock<u8> {
    // through the API only
    c.iter().map(|(a, n)| crdts::Dot::new(*a, *n)).collect()
}

pub fn covers(ctx: &Clock, d: DotT) -> bool {
    ctx.get(&d.0).copied().unwrap_or(0) >= d.1
}
pub fn join_dot(c: &mut Clock, d: DotT) {
    if d.1 == 0 {
        return;
    }
    let e = c.entry(d.0).or_insert(0);
    if *e < d.1 {
        *e = d.1;
    }
}
pub fn join(c: &mut Clock, o: &Clock) {
    for (a, n) in o {
        join_dot(c, (*a, *n));
    }
}
pub fn leq(a: &Clock, b: &Clock) -> bool {
    a.iter().all(|(k, v)| b.get(k).copied().unwrap_or(0) >= *v)
}
