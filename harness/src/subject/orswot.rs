//! Top-level `Orswot<u8,u8>`.
use crate::model::dotstore;
use crate::plan::{idx, universe};
use crate::sim::*;
use crdts::orswot::{Op, Orswot};
use crdts::{CmRDT, CvRDT, ResetRemove};
use serde_json::{json, Value};

pub const MEMBERS: usize = 3;

/// `M` = size of the member alphabet.  3 (the default) maximises collisions; the "big" variant (16) lets sets,
/// remove batches and pending-remove member lists grow well beyond a handful of elements.
pub struct SOrswotN<const M: usize>;
pub type SOrswot = SOrswotN<3>;
pub type SOrswotBig = SOrswotN<16>;
pub type St = Orswot<u8, u8>;

/// member choice: small alphabets uniformly; big alphabets half of the time from the three hot members so that
/// concurrent edits still meet on the same element
pub fn pick_member(a: u16, e: u16, n: usize) -> u8 {
    let u = universe(n);
    if n <= 3 || e % 2 == 0 {
        u[idx(a, n.min(3))]
    } else {
        u[idx(a, n)]
    }
}

pub fn sem_of(op: &Op<u8, u8>) -> Sem {
    match op {
        Op::Add { dot, members } => Sem::SetAdd { dot: (dot.actor, dot.counter), members: members.clone() },
        Op::Rm { clock, members } => Sem::SetRm { ctx: vclock_to(clock), members: members.clone() },
    }
}

/// Build an Orswot edit through the API (shared with the Map adapters for nested sets).
/// kinds: 0 add, 1 add_all, 2 rm (ctx from contains), 3 rm_all (ctx from read), 4 rm subset with read ctx
pub fn set_edit_kind(kind: u16, has_actor: bool) -> u8 {
    let k = idx(kind, 100);
    if !has_actor {
        return if k < 70 { 2 } else if k < 85 { 3 } else { 4 };
    }
    match k {
        0..=39 => 0,
        40..=54 => 1,
        55..=84 => 2,
        85..=92 => 3,
        _ => 4,
    }
}

pub fn subset(b: u16, n: usize) -> Vec<u8> {
    if n > 8 {
        // big alphabet: 16 independent bits (about half of the members), never empty
        let mask = (b as usize) & ((1usize << n) - 1);
        let mask = if mask == 0 { 1 } else { mask };
        let u = universe(n);
        let mut v: Vec<u8> = (0..n).filter(|i| mask & (1 << i) != 0).map(|i| u[i]).collect();
        v.sort();
        return v;
    }
    let mask = 1 + idx(b, (1usize << n) - 1);
    (0..n as u8).filter(|i| mask & (1 << i) != 0).collect()
}

impl<const M: usize> Subject for SOrswotN<M> {
    type St = St;
    type Op = Op<u8, u8>;
    const NAME: &'static str = "Orswot<u8,u8>";
    fn name() -> String {
        if M == 3 { "Orswot<u8,u8>".into() } else { format!("Orswot<u8,u8>[{M} members]") }
    }
    const MERGE: bool = true;
    const NEEDS: Disc = Disc::Fifo;
    fn init() -> St {
        Orswot::new()
    }
    fn apply(s: &mut St, op: Self::Op) {
        s.apply(op)
    }
    fn merge(s: &mut St, o: St) {
        s.merge(o)
    }
    fn edit(s: &St, actor: Option<u8>, e: EditArgs, aux: &mut Aux) -> Option<(Self::Op, Sem, String)> {
        let m = if aux.wide && e.e % 4 != 0 { 0 } else { pick_member(e.a, e.e, M) };
        let mut kind = set_edit_kind(e.kind, actor.is_some());
        // removing something absent is legal but mostly idle: usually turn it into an add
        if actor.is_some() && e.d % 4 != 0 {
            if kind == 2 && !s.contains(&m).val {
                kind = 0;
            } else if kind == 3 && s.read().val.is_empty() {
                kind = 1;
            }
        }
        let (op, call) = match kind {
            0 => {
                let a = actor?;
                // add context from any read entry point
                let (ctx, src) = match idx(e.c, 3) {
                    0 => (s.read().derive_add_ctx(a), "read()"),
                    1 => (s.read_ctx().derive_add_ctx(a), "read_ctx()"),
                    _ => (s.contains(&m).derive_add_ctx(a), "contains(m)"),
                };
                (s.add(m, ctx), format!("add({m}) ctx from {src}"))
            }
            1 => {
                let a = actor?;
                let ms = subset(e.b, M);
                (s.add_all(ms.clone(), s.read_ctx().derive_add_ctx(a)), format!("add_all({ms:?})"))
            }
            2 => (s.rm(m, s.contains(&m).derive_rm_ctx()), format!("rm({m}) ctx from contains({m})")),
            3 => {
                let r = s.read();
                let ms: Vec<u8> = {
                    let mut v: Vec<u8> = r.val.iter().copied().collect();
                    v.sort();
                    v
                };
                (s.rm_all(ms.clone(), r.derive_rm_ctx()), format!("rm_all({ms:?}) ctx from read()"))
            }
            _ => {
                let ms = subset(e.b, M);
                (s.rm_all(ms.clone(), s.read().derive_rm_ctx()), format!("rm_all({ms:?}) ctx from read()"))
            }
        };
        let sem = sem_of(&op);
        let call = format!("{call} -> {op:?}");
        Some((op, sem, call))
    }
    fn edit_stale_rm(s: &St, old: &St, e: EditArgs) -> Option<(Self::Op, Sem, String)> {
        let m = pick_member(e.a, e.e, M);
        let (op, call) = if idx(e.kind, 4) < 3 {
            (s.rm(m, old.contains(&m).derive_rm_ctx()), format!("rm({m}) ctx from an EARLIER contains({m}) at this replica"))
        } else {
            let r = old.read();
            let mut ms: Vec<u8> = r.val.iter().copied().collect();
            ms.sort();
            (s.rm_all(ms.clone(), r.derive_rm_ctx()), format!("rm_all({ms:?}) ctx from an EARLIER read() at this replica"))
        };
        let sem = sem_of(&op);
        let call = format!("{call} -> {op:?}");
        Some((op, sem, call))
    }
    fn observe(s: &St) -> Obs {
        observe_set(s, &universe(M))
    }
    fn predict(metas: &[OpMeta], know: Bits) -> Option<Obs> {
        let ds = dotstore::Store::build(metas, know);
        Some(dotstore::predict_set(&ds, &[], &universe(M), &ds.clock()))
    }
    fn validate_op(s: &St, op: &Self::Op) -> Result<(), String> {
        s.validate_op(op).map_err(|e| render_dot_range(&e))
    }
    fn validate_merge(a: &St, b: &St) -> Result<(), String> {
        a.validate_merge(b).map_err(|e| render_set_merge_err(&e))
    }
    fn ctx_probes(s: &St, actors: &[u8]) -> Vec<CtxProbe> {
        set_ctx_probes(s, actors, &universe(M))
    }
    const RESET: bool = true;
    fn reset_remove(s: &mut St, c: &Clock) {
        s.reset_remove(&to_vclock(c))
    }
}

/// Observation of a set through every read entry point.
pub fn observe_set(s: &St, universe: &[u8]) -> Obs {
    let mut o = Obs::new();
    let mut api: Vec<String> = Vec::new();
    let r = s.read();
    let clock = vclock_to(&r.add_clock);
    if r.rm_clock != r.add_clock {
        api.push("read(): rm_clock != add_clock".into());
    }
    let rc = s.read_ctx();
    if rc.add_clock != r.add_clock || rc.rm_clock != r.add_clock {
        api.push("read_ctx() disagrees with read()".into());
    }
    if vclock_to(&s.clock()) != clock {
        api.push("clock() disagrees with read().add_clock".into());
    }
    let mut members: Vec<u8> = r.val.iter().copied().collect();
    members.sort();
    // iter(): every member once, with its witness
    let mut it: Vec<(u8, Clock)> = Vec::new();
    for e in s.iter() {
        if e.add_clock != r.add_clock {
            api.push("iter(): add_clock differs from read()".into());
        }
        it.push((*e.val, vclock_to(&e.rm_clock)));
    }
    it.sort();
    let it_members: Vec<u8> = it.iter().map(|x| x.0).collect();
    if it_members != members {
        api.push(format!("iter() members {it_members:?} != read() members {members:?}"));
    }
    let mut all: Vec<u8> = universe.to_vec();
    for m in &members {
        if !all.contains(m) {
            all.push(*m);
        }
    }
    for m in all {
        let c = s.contains(&m);
        if c.add_clock != r.add_clock {
            api.push(format!("contains({m}): add_clock differs from read()"));
        }
        let wit = vclock_to(&c.rm_clock);
        if c.val != members.contains(&m) {
            api.push(format!("contains({m}).val = {} but read() says otherwise", c.val));
        }
        if let Some((_, w)) = it.iter().find(|x| x.0 == m) {
            if *w != wit {
                api.push(format!("iter() witness of {m} differs from contains({m}).rm_clock"));
            }
        }
        o.insert(format!("member:{m}"), json!({"present": c.val, "witness": clock_json(&wit)}));
    }
    o.insert("clock".into(), clock_json(&clock));
    o.insert("members".into(), json!(members));
    o.insert("api".into(), json!(api));
    o
}

pub fn set_ctx_probes(s: &St, actors: &[u8], universe: &[u8]) -> Vec<CtxProbe> {
    let mut v = Vec::new();
    let derive = |add: &crdts::VClock<u8>| -> Vec<(u8, DotT, Clock)> {
        actors
            .iter()
            .map(|a| {
                let rc: crdts::ctx::ReadCtx<(), u8> = crdts::ctx::ReadCtx { add_clock: add.clone(), rm_clock: Default::default(), val: () };
                let ac = rc.derive_add_ctx(*a);
                (*a, (ac.dot.actor, ac.dot.counter), vclock_to(&ac.clock))
            })
            .collect()
    };
    // derive through the real ReadCtx of each entry point (not a rebuilt one)
    {
        let r = s.read();
        let d: Vec<(u8, DotT, Clock)> = actors
            .iter()
            .map(|a| {
                let ac = s.read().derive_add_ctx(*a);
                (*a, (ac.dot.actor, ac.dot.counter), vclock_to(&ac.clock))
            })
            .collect();
        v.push(CtxProbe { entry: "read".into(), elem: None, add_clock: vclock_to(&r.add_clock), rm_clock: vclock_to(&r.rm_clock), derived: d, derived_rm: vclock_to(&s.read().derive_rm_ctx().clock), note: None });
    }
    {
        let r = s.read_ctx();
        let d: Vec<(u8, DotT, Clock)> = actors
            .iter()
            .map(|a| {
                let ac = s.read_ctx().derive_add_ctx(*a);
                (*a, (ac.dot.actor, ac.dot.counter), vclock_to(&ac.clock))
            })
            .collect();
        v.push(CtxProbe { entry: "read_ctx".into(), elem: None, add_clock: vclock_to(&r.add_clock), rm_clock: vclock_to(&r.rm_clock), derived: d, derived_rm: vclock_to(&s.read_ctx().derive_rm_ctx().clock), note: None });
    }
    for m in universe.iter().copied() {
        let r = s.contains(&m);
        let d: Vec<(u8, DotT, Clock)> = actors
            .iter()
            .map(|a| {
                let ac = s.contains(&m).derive_add_ctx(*a);
                (*a, (ac.dot.actor, ac.dot.counter), vclock_to(&ac.clock))
            })
            .collect();
        v.push(CtxProbe { entry: format!("contains({m})"), elem: Some(format!("member:{m}")), add_clock: vclock_to(&r.add_clock), rm_clock: vclock_to(&r.rm_clock), derived: d, derived_rm: vclock_to(&s.contains(&m).derive_rm_ctx().clock), note: None });
    }
    for e in s.iter() {
        let m = *e.val;
        v.push(CtxProbe { entry: format!("iter()[{m}]"), elem: Some(format!("member:{m}")), add_clock: vclock_to(&e.add_clock), rm_clock: vclock_to(&e.rm_clock), derived: derive(&e.add_clock), derived_rm: vclock_to(&e.rm_clock), note: None });
    }
    v.push(split_probe("read", None, &|| s.read(), actors));
    v.push(split_probe("read_ctx", None, &|| s.read_ctx(), actors));
    for m in universe.iter().copied() {
        v.push(split_probe(&format!("contains({m})"), Some(format!("member:{m}")), &|| s.contains(&m), actors));
    }
    v
}

pub fn nested_set_value(s: &St) -> Value {
    let mut members: Vec<u8> = s.read().val.into_iter().collect();
    members.sort();
    json!(members)
}

pub fn render_set_merge_err(e: &crdts::orswot::Validation<u8, u8>) -> String {
    match e {
        crdts::orswot::Validation::DoubleSpentDot { dot, our_member, their_member } => format!("DoubleSpentDot {{ dot: ({}, {}), our_member: {our_member}, their_member: {their_member} }}", dot.actor, dot.counter),
    }
}
