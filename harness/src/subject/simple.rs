//! Order-free aggregates and VClock as op-replicated subjects.
use crate::plan::idx;
use crate::sim::*;
use crdts::{CmRDT, CvRDT, Dot, GCounter, GSet, LWWReg, MaxReg, MinReg, PNCounter, ResetRemove, VClock};
use num::bigint::{BigInt, BigUint};
use serde_json::json;
use std::collections::BTreeMap;

/// Step counts, including huge ones: the per-actor total is a u64 (the caller must not overflow it: `cur` is the
/// actor's current total and the step is clamped to what still fits), but the SUM over actors is documented to be
/// exact (BigUint / BigInt reads), so totals of 2^63 and more per actor are within the domain.
fn steps_of(b: u16, cur: u64) -> u64 {
    let st = match idx(b, 16) {
        0 => 0,
        1 | 2 | 3 => 1,
        4 | 5 => 2,
        6 => 3,
        7 => 7,
        8 => 1000,
        9 => 65_536,
        10 => 1u64 << 32,
        11 => 1u64 << 62,
        12 => 1u64 << 63,
        13 => COUNTER_LIMIT.saturating_sub(cur),
        14 => u64::MAX / 3,
        _ => (b as u64) + 1,
    };
    st.min(COUNTER_LIMIT.saturating_sub(cur))
}
/// per-actor totals stay below this, so that neither the library's `counter + 1` (inc, validate_op) nor the
/// harness's own clock arithmetic can overflow a u64: overflowing one actor's total is the caller's error
pub const COUNTER_LIMIT: u64 = u64::MAX - (1 << 40);

fn per_actor_max(metas: &[OpMeta], know: Bits, pos: Option<bool>) -> BTreeMap<u8, u64> {
    let mut c = BTreeMap::new();
    for m in metas.iter().filter(|m| has(know, m.id)) {
        match &m.sem {
            Sem::Dot { dot } if pos.is_none() => join_dot(&mut c, *dot),
            Sem::Pn { dot, pos: p } if Some(*p) == pos => join_dot(&mut c, *dot),
            _ => {}
        }
    }
    c
}

/// Counter model from the REQUESTED steps (never from the dot the library returned): per actor the running
/// total after its i-th request is the sum of the first i step counts; a replica reads, per actor, the
/// largest running total among the requests it knows.
fn running_max(metas: &[OpMeta], know: Bits, pos: bool) -> BTreeMap<u8, u64> {
    let mut running: BTreeMap<u8, u64> = BTreeMap::new();
    let mut best: BTreeMap<u8, u64> = BTreeMap::new();
    for m in metas {
        if let Sem::Inc { dot, steps, pos: p } = &m.sem {
            if *p != pos {
                continue;
            }
            let r = running.entry(dot.0).or_insert(0);
            *r += *steps;
            if has(know, m.id) && *r > 0 {
                let b = best.entry(dot.0).or_insert(0);
                if *r > *b {
                    *b = *r;
                }
            }
        }
    }
    best
}

// ---------------------------------------------------------------- VClock
pub struct SVClock;
impl Subject for SVClock {
    type St = VClock<u8>;
    type Op = Dot<u8>;
    const NAME: &'static str = "VClock<u8>";
    const MERGE: bool = true;
    const NEEDS: Disc = Disc::Any;
    fn init() -> Self::St {
        VClock::new()
    }
    fn apply(s: &mut Self::St, op: Self::Op) {
        s.apply(op)
    }
    fn merge(s: &mut Self::St, o: Self::St) {
        s.merge(o)
    }
    fn edit(s: &Self::St, actor: Option<u8>, _e: EditArgs, _aux: &mut Aux) -> Option<(Self::Op, Sem, String)> {
        let a = actor?;
        let dot = s.inc(a);
        Some((dot, Sem::Dot { dot: (dot.actor, dot.counter) }, format!("inc({a}) -> {dot:?}")))
    }
    fn observe(s: &Self::St) -> Obs {
        let mut o = Obs::new();
        let c: Clock = s.iter().map(|d| (*d.actor, d.counter)).collect();
        let mut api: Vec<String> = Vec::new();
        for (a, n) in &c {
            if s.get(a) != *n {
                api.push(format!("get({a}) != iter()"));
            }
            if *n == 0 {
                api.push(format!("zero counter stored for actor {a}"));
            }
        }
        if s.is_empty() != c.is_empty() {
            api.push("is_empty() inconsistent".into());
        }
        o.insert("clock".into(), clock_json(&c));
        o.insert("api".into(), json!(api));
        o
    }
    fn predict(metas: &[OpMeta], know: Bits) -> Option<Obs> {
        let mut o = Obs::new();
        o.insert("clock".into(), clock_json(&per_actor_max(metas, know, None)));
        o.insert("api".into(), json!([]));
        Some(o)
    }
    fn validate_op(s: &Self::St, op: &Self::Op) -> Result<(), String> {
        s.validate_op(op).map_err(|e| render_dot_range(&e))
    }
    const RESET: bool = true;
    fn reset_remove(s: &mut Self::St, c: &Clock) {
        s.reset_remove(&to_vclock(c))
    }
}

// ---------------------------------------------------------------- GCounter
pub struct SGCounter;
impl Subject for SGCounter {
    type St = GCounter<u8>;
    type Op = Dot<u8>;
    const NAME: &'static str = "GCounter<u8>";
    const MERGE: bool = true;
    const NEEDS: Disc = Disc::Any;
    fn init() -> Self::St {
        GCounter::new()
    }
    fn apply(s: &mut Self::St, op: Self::Op) {
        s.apply(op)
    }
    fn merge(s: &mut Self::St, o: Self::St) {
        s.merge(o)
    }
    fn edit(s: &Self::St, actor: Option<u8>, e: EditArgs, _aux: &mut Aux) -> Option<(Self::Op, Sem, String)> {
        let a = actor?;
        let cur = s.inc_many(a, 0).counter;
        let (dot, steps, call) = if idx(e.kind, 2) == 0 && cur < COUNTER_LIMIT {
            (s.inc(a), 1, format!("inc({a})"))
        } else {
            let st = steps_of(e.b, cur);
            (s.inc_many(a, st), st, format!("inc_many({a}, {st})"))
        };
        Some((dot, Sem::Inc { dot: (dot.actor, dot.counter), steps, pos: true }, format!("{call} -> {dot:?}")))
    }
    fn observe(s: &Self::St) -> Obs {
        let mut o = Obs::new();
        o.insert("value".into(), json!(s.read().to_string()));
        o.insert("state".into(), crate::tree::to_tree(s));
        o
    }
    fn predict(metas: &[OpMeta], know: Bits) -> Option<Obs> {
        let c = running_max(metas, know, true);
        let sum: BigUint = c.values().map(|v| BigUint::from(*v)).sum();
        let mut o = Obs::new();
        o.insert("value".into(), json!(sum.to_string()));
        o.insert("state".into(), clock_json(&c));
        Some(o)
    }
    const RESET: bool = true;
    fn reset_remove(s: &mut Self::St, c: &Clock) {
        s.reset_remove(&to_vclock(c))
    }
}

// ---------------------------------------------------------------- PNCounter
pub struct SPNCounter;
impl Subject for SPNCounter {
    type St = PNCounter<u8>;
    type Op = crdts::pncounter::Op<u8>;
    const NAME: &'static str = "PNCounter<u8>";
    const MERGE: bool = true;
    const NEEDS: Disc = Disc::Any;
    fn init() -> Self::St {
        PNCounter::new()
    }
    fn apply(s: &mut Self::St, op: Self::Op) {
        s.apply(op)
    }
    fn merge(s: &mut Self::St, o: Self::St) {
        s.merge(o)
    }
    fn edit(s: &Self::St, actor: Option<u8>, e: EditArgs, _aux: &mut Aux) -> Option<(Self::Op, Sem, String)> {
        let a = actor?;
        let cur_p = s.inc_many(a, 0).dot.counter;
        let cur_n = s.dec_many(a, 0).dot.counter;
        let kind = match idx(e.kind, 4) {
            0 if cur_p >= COUNTER_LIMIT => 2,
            1 if cur_n >= COUNTER_LIMIT => 3,
            k => k,
        };
        let (op, steps, want_pos, call) = match kind {
            0 => (s.inc(a), 1, true, format!("inc({a})")),
            1 => (s.dec(a), 1, false, format!("dec({a})")),
            2 => {
                let st = steps_of(e.b, cur_p);
                (s.inc_many(a, st), st, true, format!("inc_many({a}, {st})"))
            }
            _ => {
                let st = steps_of(e.b, cur_n);
                (s.dec_many(a, st), st, false, format!("dec_many({a}, {st})"))
            }
        };
        // the model uses the REQUESTED direction and step count
        let sem = Sem::Inc { dot: (op.dot.actor, op.dot.counter), steps, pos: want_pos };
        Some((op.clone(), sem, format!("{call} -> {op:?}")))
    }
    fn observe(s: &Self::St) -> Obs {
        let mut o = Obs::new();
        o.insert("value".into(), json!(s.read().to_string()));
        o.insert("state".into(), crate::tree::to_tree(s));
        o
    }
    fn predict(metas: &[OpMeta], know: Bits) -> Option<Obs> {
        let p = running_max(metas, know, true);
        let n = running_max(metas, know, false);
        let ps: BigInt = p.values().map(|v| BigInt::from(*v)).sum();
        let ns: BigInt = n.values().map(|v| BigInt::from(*v)).sum();
        let mut o = Obs::new();
        o.insert("value".into(), json!((ps - ns).to_string()));
        o.insert("state".into(), json!({"p": clock_json(&p), "n": clock_json(&n)}));
        Some(o)
    }
    const RESET: bool = true;
    fn reset_remove(s: &mut Self::St, c: &Clock) {
        s.reset_remove(&to_vclock(c))
    }
}

// ---------------------------------------------------------------- GSet
pub struct SGSet;
impl Subject for SGSet {
    type St = GSet<u8>;
    type Op = u8;
    const NAME: &'static str = "GSet<u8>";
    const MERGE: bool = true;
    const NEEDS: Disc = Disc::Any;
    fn init() -> Self::St {
        GSet::new()
    }
    fn apply(s: &mut Self::St, op: Self::Op) {
        s.apply(op)
    }
    fn merge(s: &mut Self::St, o: Self::St) {
        s.merge(o)
    }
    fn edit(_s: &Self::St, _actor: Option<u8>, e: EditArgs, _aux: &mut Aux) -> Option<(Self::Op, Sem, String)> {
        let v = idx(e.a, 8) as u8;
        Some((v, Sem::Val { v: v as i64 }, format!("insert({v})")))
    }
    fn observe(s: &Self::St) -> Obs {
        let mut o = Obs::new();
        let r: Vec<u8> = s.read().into_iter().collect();
        let mut api: Vec<String> = Vec::new();
        for v in 0..8u8 {
            if s.contains(&v) != r.contains(&v) {
                api.push(format!("contains({v}) disagrees with read()"));
            }
        }
        o.insert("set".into(), json!(r));
        o.insert("api".into(), json!(api));
        o
    }
    fn predict(metas: &[OpMeta], know: Bits) -> Option<Obs> {
        let mut v: Vec<i64> = metas.iter().filter(|m| has(know, m.id)).filter_map(|m| if let Sem::Val { v } = m.sem { Some(v) } else { None }).collect();
        v.sort();
        v.dedup();
        let mut o = Obs::new();
        o.insert("set".into(), json!(v));
        o.insert("api".into(), json!([]));
        Some(o)
    }
}

// ---------------------------------------------------------------- LWWReg (unique, model-issued markers)
pub struct SLww;
impl Subject for SLww {
    type St = LWWReg<u16, u64>;
    type Op = LWWReg<u16, u64>;
    const NAME: &'static str = "LWWReg<u16,u64>";
    const MERGE: bool = true;
    const NEEDS: Disc = Disc::Any;
    fn init() -> Self::St {
        LWWReg::default()
    }
    fn apply(s: &mut Self::St, op: Self::Op) {
        s.apply(op)
    }
    fn merge(s: &mut Self::St, o: Self::St) {
        s.merge(o)
    }
    fn edit(_s: &Self::St, _actor: Option<u8>, e: EditArgs, aux: &mut Aux) -> Option<(Self::Op, Sem, String)> {
        // unique marker, not monotone in issue order: rank * 1024 + serial
        let serial = aux.fresh() as u64;
        let marker = (idx(e.a, 6) as u64) * 1024 + serial;
        let val = idx(e.b, 5) as u16;
        let op = LWWReg::new(val, marker);
        Some((op.clone(), Sem::Lww { val: val as i64, marker: marker as i64 }, format!("update({val}, marker {marker})")))
    }
    fn observe(s: &Self::St) -> Obs {
        let mut o = Obs::new();
        o.insert("val".into(), json!(s.val));
        o.insert("marker".into(), json!(s.marker));
        o
    }
    fn predict(metas: &[OpMeta], know: Bits) -> Option<Obs> {
        let mut best: (i64, i64) = (0, 0); // (marker, val) of the default register
        for m in metas.iter().filter(|m| has(know, m.id)) {
            if let Sem::Lww { val, marker } = m.sem {
                if marker > best.0 {
                    best = (marker, val);
                }
            }
        }
        let mut o = Obs::new();
        o.insert("val".into(), json!(best.1));
        o.insert("marker".into(), json!(best.0));
        Some(o)
    }
    fn validate_op(s: &Self::St, op: &Self::Op) -> Result<(), String> {
        s.validate_op(op).map_err(|e| match e {
            crdts::lwwreg::Validation::ConflictingMarker => "ConflictingMarker".to_string(),
        })
    }
    fn validate_merge(a: &Self::St, b: &Self::St) -> Result<(), String> {
        a.validate_merge(b).map_err(|e| match e {
            crdts::lwwreg::Validation::ConflictingMarker => "ConflictingMarker".to_string(),
        })
    }
}

// ---------------------------------------------------------------- MaxReg / MinReg
fn reg_val(a: u16) -> i64 {
    match idx(a, 16) {
        0 => i64::MIN,
        1 => i64::MAX,
        k => (k as i64) * 7 - 56,
    }
}

pub struct SMax;
impl Subject for SMax {
    type St = MaxReg<i64>;
    type Op = i64;
    const NAME: &'static str = "MaxReg<i64>";
    const MERGE: bool = true;
    const NEEDS: Disc = Disc::Any;
    fn init() -> Self::St {
        MaxReg::default()
    }
    fn apply(s: &mut Self::St, op: Self::Op) {
        s.apply(op)
    }
    fn merge(s: &mut Self::St, o: Self::St) {
        s.merge(o)
    }
    fn edit(s: &Self::St, _actor: Option<u8>, e: EditArgs, _aux: &mut Aux) -> Option<(Self::Op, Sem, String)> {
        let v = reg_val(e.a);
        let op = s.write(v);
        Some((op, Sem::Val { v: op }, format!("write({v})")))
    }
    fn observe(s: &Self::St) -> Obs {
        let mut o = Obs::new();
        o.insert("val".into(), json!(*s.read()));
        o
    }
    fn predict(metas: &[OpMeta], know: Bits) -> Option<Obs> {
        let v = metas.iter().filter(|m| has(know, m.id)).filter_map(|m| if let Sem::Val { v } = m.sem { Some(v) } else { None }).fold(0i64, |a, b| a.max(b));
        let mut o = Obs::new();
        o.insert("val".into(), json!(v));
        Some(o)
    }
}

pub struct SMin;
impl Subject for SMin {
    type St = MinReg<i64>;
    type Op = i64;
    const NAME: &'static str = "MinReg<i64>";
    const MERGE: bool = true;
    const NEEDS: Disc = Disc::Any;
    fn init() -> Self::St {
        MinReg::default()
    }
    fn apply(s: &mut Self::St, op: Self::Op) {
        s.apply(op)
    }
    fn merge(s: &mut Self::St, o: Self::St) {
        s.merge(o)
    }
    fn edit(s: &Self::St, _actor: Option<u8>, e: EditArgs, _aux: &mut Aux) -> Option<(Self::Op, Sem, String)> {
        let v = reg_val(e.a);
        let op = s.write(v);
        Some((op, Sem::Val { v: op }, format!("write({v})")))
    }
    fn observe(s: &Self::St) -> Obs {
        let mut o = Obs::new();
        o.insert("val".into(), json!(*s.read()));
        o
    }
    fn predict(metas: &[OpMeta], know: Bits) -> Option<Obs> {
        let v = metas.iter().filter(|m| has(know, m.id)).filter_map(|m| if let Sem::Val { v } = m.sem { Some(v) } else { None }).fold(0i64, |a, b| a.min(b));
        let mut o = Obs::new();
        o.insert("val".into(), json!(v));
        Some(o)
    }
}
