//! `Map<u8, N, u8>` for nested values N = Orswot, MVReg, or another Map (any depth).
use crate::model::dotstore::{self, Shape};
use crate::plan::{idx, universe};
use crate::sim::*;
use crate::subject::mvreg::{pick_val, sem_of_put};
use crate::subject::orswot::{sem_of as set_sem_of, set_edit_kind, subset};
use crdts::ctx::AddCtx;
use crdts::map::{Map, Op as MOp};
use crdts::{CmRDT, CvRDT, MVReg, Orswot, ResetRemove};
use serde::de::DeserializeOwned;
use serde::Serialize;
use serde_json::{json, Value};
use std::fmt::Debug;
use std::marker::PhantomData;

pub const KEYS: usize = 3;
pub const NKEYS: usize = 2;
pub const NMEMBERS: usize = 2;

/// A CRDT usable as a Map value in this harness.
pub trait Nested: Clone + Default + PartialEq + Debug + ResetRemove<u8> + CmRDT + CvRDT + Serialize + DeserializeOwned + 'static
where
    <Self as CmRDT>::Op: Clone + Debug + Serialize + DeserializeOwned,
{
    fn shape() -> Shape;
    fn name() -> String;
    /// build a nested op inside `Map::update`'s closure, from a real read of the nested value
    fn nested_edit(v: &Self, ctx: AddCtx<u8>, e: EditArgs, aux: &mut Aux) -> (<Self as CmRDT>::Op, String);
    fn sem(op: &<Self as CmRDT>::Op, actor: u8) -> Sem;
    /// content (no contexts), same rendering as dotstore::Store::value
    fn value(v: &Self) -> Value;
    /// (member, actor, counter) for every dot of every present member's own remove context; empty for non-set values
    fn witnesses(_v: &Self) -> Vec<(String, u8, u64)> {
        Vec::new()
    }
    fn apply_n(v: &mut Self, op: <Self as CmRDT>::Op) {
        v.apply(op)
    }
    /// canonical rendering of validation errors, built from their fields
    fn render_op_err(e: &<Self as CmRDT>::Validation) -> String;
    fn render_merge_err(e: &<Self as CvRDT>::Validation) -> String;
}

impl Nested for Orswot<u8, u8> {
    fn shape() -> Shape {
        Shape::Set
    }
    fn name() -> String {
        "Orswot<u8,u8>".into()
    }
    fn nested_edit(v: &Self, ctx: AddCtx<u8>, e: EditArgs, aux: &mut Aux) -> (<Self as CmRDT>::Op, String) {
        let nmembers = if aux.big { 9 } else { NMEMBERS };
        let m = if aux.big { let u = universe(nmembers); if e.e % 2 == 1 { u[idx(e.a, nmembers)] } else { u[idx(e.a, 2)] } } else { idx(e.a, 2) as u8 };
        let mut kind = set_edit_kind(e.kind, true);
        if e.d % 4 != 0 {
            if kind == 2 && !v.contains(&m).val {
                kind = 0;
            } else if kind == 3 && v.read().val.is_empty() {
                kind = 1;
            }
        }
        match kind {
            0 => (v.add(m, ctx), format!("set.add({m}, ctx)")),
            1 => {
                let ms = subset(e.b, nmembers);
                (v.add_all(ms.clone(), ctx), format!("set.add_all({ms:?}, ctx)"))
            }
            2 => (v.rm(m, v.contains(&m).derive_rm_ctx()), format!("set.rm({m}, set.contains({m}) ctx)")),
            3 => {
                let r = v.read();
                let mut ms: Vec<u8> = r.val.iter().copied().collect();
                ms.sort();
                (v.rm_all(ms.clone(), r.derive_rm_ctx()), format!("set.rm_all({ms:?}, set.read() ctx)"))
            }
            _ => {
                let ms = subset(e.b, nmembers);
                (v.rm_all(ms.clone(), v.read().derive_rm_ctx()), format!("set.rm_all({ms:?}, set.read() ctx)"))
            }
        }
    }
    fn sem(op: &<Self as CmRDT>::Op, _actor: u8) -> Sem {
        set_sem_of(op)
    }
    fn value(v: &Self) -> Value {
        crate::subject::orswot::nested_set_value(v)
    }
    fn witnesses(v: &Self) -> Vec<(String, u8, u64)> {
        let mut out = Vec::new();
        let mut members: Vec<u8> = v.read().val.into_iter().collect();
        members.sort();
        for m in members {
            for (a, n) in vclock_to(&v.contains(&m).rm_clock) {
                out.push((format!("member:{m}"), a, n));
            }
        }
        out
    }
    fn render_op_err(e: &<Self as CmRDT>::Validation) -> String {
        render_dot_range(e)
    }
    fn render_merge_err(e: &<Self as CvRDT>::Validation) -> String {
        crate::subject::orswot::render_set_merge_err(e)
    }
}

impl Nested for MVReg<u16, u8> {
    fn shape() -> Shape {
        Shape::Reg
    }
    fn name() -> String {
        "MVReg<u16,u8>".into()
    }
    fn nested_edit(v: &Self, ctx: AddCtx<u8>, e: EditArgs, aux: &mut Aux) -> (<Self as CmRDT>::Op, String) {
        let val = pick_val(e.b, aux);
        (v.write(val, ctx), format!("reg.write({val}, ctx)"))
    }
    fn sem(op: &<Self as CmRDT>::Op, actor: u8) -> Sem {
        sem_of_put(op, actor)
    }
    fn value(v: &Self) -> Value {
        let mut vals = v.read().val;
        vals.sort();
        json!(vals)
    }
    fn render_op_err(e: &<Self as CmRDT>::Validation) -> String {
        match *e {}
    }
    fn render_merge_err(e: &<Self as CvRDT>::Validation) -> String {
        match *e {}
    }
}

impl<N: Nested> Nested for Map<u8, N, u8>
where
    <N as CmRDT>::Op: Clone + Debug + Serialize + DeserializeOwned + PartialEq,
    N: crdts::map::Val<u8>,
{
    fn shape() -> Shape {
        Shape::MapOf(Box::new(N::shape()))
    }
    fn name() -> String {
        format!("Map<u8,{},u8>", N::name())
    }
    fn nested_edit(v: &Self, ctx: AddCtx<u8>, e: EditArgs, aux: &mut Aux) -> (<Self as CmRDT>::Op, String) {
        let k = idx(e.a, NKEYS) as u8;
        let absent = v.get(&k).val.is_none();
        if idx(e.kind, 100) < 72 || (absent && e.d % 4 != 0) {
            let mut call = String::new();
            let op = v.update(k, ctx, |n, c| {
                let (op, cl) = N::nested_edit(n, c, e.shift(), aux);
                call = cl;
                op
            });
            (op, format!("map.update({k}, ctx, |v, ctx| {call})"))
        } else {
            (v.rm(k, v.get(&k).derive_rm_ctx()), format!("map.rm({k}, map.get({k}) ctx)"))
        }
    }
    fn sem(op: &<Self as CmRDT>::Op, actor: u8) -> Sem {
        map_sem::<N>(op, actor)
    }
    fn value(v: &Self) -> Value {
        let mut m = serde_json::Map::new();
        for e in v.iter() {
            let (k, n) = e.val;
            m.insert(k.to_string(), N::value(n));
        }
        Value::Object(m)
    }
    fn render_op_err(e: &<Self as CmRDT>::Validation) -> String {
        render_map_op_err::<N>(e)
    }
    fn render_merge_err(e: &<Self as CvRDT>::Validation) -> String {
        render_map_merge_err::<N>(e)
    }
}

pub fn render_map_op_err<N: Nested>(e: &crdts::map::CmRDTValidation<N, u8>) -> String
where
    <N as CmRDT>::Op: Clone + Debug + Serialize + DeserializeOwned + PartialEq,
    N: crdts::map::Val<u8>,
{
    match e {
        crdts::map::CmRDTValidation::SourceOrder(d) => format!("SourceOrder({})", render_dot_range(d)),
        crdts::map::CmRDTValidation::Value(v) => format!("Value({})", N::render_op_err(v)),
    }
}

pub fn render_map_merge_err<N: Nested>(e: &crdts::map::CvRDTValidation<u8, N, u8>) -> String
where
    <N as CmRDT>::Op: Clone + Debug + Serialize + DeserializeOwned + PartialEq,
    N: crdts::map::Val<u8>,
{
    match e {
        crdts::map::CvRDTValidation::DoubleSpentDot { dot, our_key, their_key } => format!("DoubleSpentDot {{ dot: ({}, {}), our_key: {our_key}, their_key: {their_key} }}", dot.actor, dot.counter),
        crdts::map::CvRDTValidation::Value(v) => format!("Value({})", N::render_merge_err(v)),
    }
}

pub fn map_sem<N: Nested>(op: &MOp<u8, N, u8>, actor: u8) -> Sem
where
    <N as CmRDT>::Op: Clone + Debug + Serialize + DeserializeOwned,
    N: crdts::map::Val<u8>,
{
    match op {
        MOp::Up { dot, key, op } => Sem::MapUp { dot: (dot.actor, dot.counter), key: *key, inner: Box::new(N::sem(op, actor)) },
        MOp::Rm { clock, keyset } => Sem::MapRm { ctx: vclock_to(clock), keys: keyset.iter().copied().collect() },
    }
}

/// `K` = size of the key alphabet (3 by default; the "big" variants use 12 so that maps hold many entries).
pub struct SMapK<N, const K: usize>(PhantomData<N>);
pub type SMap<N> = SMapK<N, 3>;

pub fn pick_key(a: u16, e: u16, n: usize) -> u8 {
    let u = universe(n);
    if n <= 3 || e % 3 == 0 {
        u[idx(a, n.min(3))]
    } else {
        u[idx(a, n)]
    }
}

impl<N: Nested, const K: usize> Subject for SMapK<N, K>
where
    <N as CmRDT>::Op: Clone + Debug + Serialize + DeserializeOwned + PartialEq,
    N: crdts::map::Val<u8>,
{
    type St = Map<u8, N, u8>;
    type Op = MOp<u8, N, u8>;
    const NAME: &'static str = "Map";
    fn name() -> String {
        if K == 3 { format!("Map<u8,{},u8>", N::name()) } else { format!("Map<u8,{},u8>[{K} keys]", N::name()) }
    }
    const MERGE: bool = true;
    const NEEDS: Disc = Disc::Fifo;
    // a map grows by one key per op: the big-alphabet variants need long histories to hold many keys
    const LONG: u32 = if K > 3 { 35 } else { 4 };
    fn init() -> Self::St {
        Map::new()
    }
    fn apply(s: &mut Self::St, op: Self::Op) {
        s.apply(op)
    }
    fn merge(s: &mut Self::St, o: Self::St) {
        s.merge(o)
    }
    fn edit(s: &Self::St, actor: Option<u8>, e: EditArgs, aux: &mut Aux) -> Option<(Self::Op, Sem, String)> {
        aux.big = K > 3;
        let k = if aux.wide && e.e % 4 != 0 { 0 } else { pick_key(e.a, e.e, K) };
        let absent = s.get(&k).val.is_none();
        let want_update = idx(e.kind, 100) < 74 || (absent && e.d % 4 != 0);
        let (op, call) = if want_update && actor.is_some() {
            let a = actor?;
            let (ctx, src) = match idx(e.c, 4) {
                0 => (s.read_ctx().derive_add_ctx(a), "read_ctx()"),
                1 => (s.get(&k).derive_add_ctx(a), "get(k)"),
                2 => (s.len().derive_add_ctx(a), "len()"),
                _ => (s.is_empty().derive_add_ctx(a), "is_empty()"),
            };
            let mut call = String::new();
            let op = s.update(k, ctx, |n, c| {
                let (op, cl) = N::nested_edit(n, c, e.shift(), aux);
                call = cl;
                op
            });
            (op, format!("update({k}, ctx from {src}, |v, ctx| {call})"))
        } else {
            (s.rm(k, s.get(&k).derive_rm_ctx()), format!("rm({k}, get({k}) ctx)"))
        };
        let sem = map_sem::<N>(&op, actor.unwrap_or(0));
        let call = format!("{call} -> {op:?}");
        Some((op, sem, call))
    }
    fn edit_stale_rm(s: &Self::St, old: &Self::St, e: EditArgs) -> Option<(Self::Op, Sem, String)> {
        let k = pick_key(e.a, e.e, K);
        let op = s.rm(k, old.get(&k).derive_rm_ctx());
        let sem = map_sem::<N>(&op, 0);
        let call = format!("rm({k}, ctx from an EARLIER get({k}) at this replica) -> {op:?}");
        Some((op, sem, call))
    }
    fn observe(s: &Self::St) -> Obs {
        let mut o = Obs::new();
        let mut api: Vec<String> = Vec::new();
        let rc = s.read_ctx();
        let clock = vclock_to(&rc.add_clock);
        if rc.rm_clock != rc.add_clock {
            api.push("read_ctx(): rm_clock != add_clock".into());
        }
        let l = s.len();
        let ie = s.is_empty();
        if l.add_clock != rc.add_clock || l.rm_clock != rc.add_clock || ie.add_clock != rc.add_clock || ie.rm_clock != rc.add_clock {
            api.push("len()/is_empty() contexts differ from read_ctx()".into());
        }
        let mut keys: Vec<(u8, Clock)> = Vec::new();
        for k in s.keys() {
            if k.add_clock != rc.add_clock {
                api.push("keys(): add_clock differs".into());
            }
            keys.push((*k.val, vclock_to(&k.rm_clock)));
        }
        let key_list: Vec<u8> = keys.iter().map(|k| k.0).collect();
        if l.val != keys.len() || ie.val != keys.is_empty() {
            api.push("len()/is_empty() disagree with keys()".into());
        }
        let it: Vec<(u8, Clock, Value)> = s
            .iter()
            .map(|e| {
                if e.add_clock != rc.add_clock {
                    api.push("iter(): add_clock differs".into());
                }
                (*e.val.0, vclock_to(&e.rm_clock), N::value(e.val.1))
            })
            .collect();
        let vals: Vec<(Clock, Value)> = s.values().map(|e| (vclock_to(&e.rm_clock), N::value(e.val))).collect();
        if it.len() != keys.len() || vals.len() != keys.len() {
            api.push("iter()/values() length differs from keys()".into());
        }
        let mut all: Vec<u8> = universe(K);
        for k in &key_list {
            if !all.contains(k) {
                all.push(*k);
            }
        }
        for k in all {
            let g = s.get(&k);
            if g.add_clock != rc.add_clock {
                api.push(format!("get({k}): add_clock differs"));
            }
            let wit = vclock_to(&g.rm_clock);
            let present = g.val.is_some();
            if present != key_list.contains(&k) {
                api.push(format!("get({k}) presence disagrees with keys()"));
            }
            let val = g.val.as_ref().map(|v| N::value(v)).unwrap_or(Value::Null);
            if let Some(pos) = keys.iter().position(|x| x.0 == k) {
                if keys[pos].1 != wit {
                    api.push(format!("keys() witness of {k} differs from get({k}).rm_clock"));
                }
                if pos < it.len() && (it[pos].0 != k || it[pos].1 != wit || it[pos].2 != val) {
                    api.push(format!("iter() entry of {k} differs from get({k})"));
                }
                if pos < vals.len() && (vals[pos].0 != wit || vals[pos].1 != val) {
                    api.push(format!("values() entry of {k} differs from get({k})"));
                }
            }
            o.insert(format!("key:{k}"), json!({"present": present, "witness": clock_json(&wit), "val": val}));
        }
        o.insert("clock".into(), clock_json(&clock));
        o.insert("keys".into(), json!(key_list));
        o.insert("api".into(), json!(api));
        o
    }
    fn predict(metas: &[OpMeta], know: Bits) -> Option<Obs> {
        let ds = dotstore::Store::build(metas, know);
        Some(dotstore::predict_map(&ds, &N::shape(), &universe(K)))
    }
    fn validate_op(s: &Self::St, op: &Self::Op) -> Result<(), String> {
        s.validate_op(op).map_err(|e| render_map_op_err::<N>(&e))
    }
    fn nested_witnesses(s: &Self::St) -> Vec<(String, Clock, Vec<(String, u8, u64)>)> {
        let mut keys: Vec<u8> = s.keys().map(|k| *k.val).collect();
        keys.sort();
        keys.into_iter()
            .filter_map(|k| {
                let g = s.get(&k);
                let wit = vclock_to(&g.rm_clock);
                g.val.as_ref().map(|v| (format!("key:{k}"), wit, N::witnesses(v)))
            })
            .collect()
    }
    fn validate_merge(a: &Self::St, b: &Self::St) -> Result<(), String> {
        a.validate_merge(b).map_err(|e| render_map_merge_err::<N>(&e))
    }
    fn ctx_probes(s: &Self::St, actors: &[u8]) -> Vec<CtxProbe> {
        let mut v = Vec::new();
        macro_rules! probe {
            ($name:expr, $elem:expr, $read:expr) => {{
                let r = $read;
                let d: Vec<(u8, DotT, Clock)> = actors
                    .iter()
                    .map(|a| {
                        let ac = $read.derive_add_ctx(*a);
                        (*a, (ac.dot.actor, ac.dot.counter), vclock_to(&ac.clock))
                    })
                    .collect();
                v.push(CtxProbe { entry: $name, elem: $elem, add_clock: vclock_to(&r.add_clock), rm_clock: vclock_to(&r.rm_clock), derived: d, derived_rm: vclock_to(&$read.derive_rm_ctx().clock), note: None });
            }};
        }
        probe!("read_ctx".to_string(), None, s.read_ctx());
        probe!("len".to_string(), None, s.len());
        probe!("is_empty".to_string(), None, s.is_empty());
        for k in universe(K) {
            probe!(format!("get({k})"), Some(format!("key:{k}")), s.get(&k));
        }
        for e in s.keys() {
            let k = *e.val;
            let add = e.add_clock.clone();
            let d: Vec<(u8, DotT, Clock)> = actors
                .iter()
                .map(|a| {
                    let rc: crdts::ctx::ReadCtx<(), u8> = crdts::ctx::ReadCtx { add_clock: add.clone(), rm_clock: Default::default(), val: () };
                    let ac = rc.derive_add_ctx(*a);
                    (*a, (ac.dot.actor, ac.dot.counter), vclock_to(&ac.clock))
                })
                .collect();
            v.push(CtxProbe { entry: format!("keys()[{k}]"), elem: Some(format!("key:{k}")), add_clock: vclock_to(&e.add_clock), rm_clock: vclock_to(&e.rm_clock), derived: d, derived_rm: vclock_to(&e.rm_clock), note: None });
        }
        v.push(split_probe("read_ctx", None, &|| s.read_ctx(), actors));
        v.push(split_probe("len", None, &|| s.len(), actors));
        v.push(split_probe("is_empty", None, &|| s.is_empty(), actors));
        for k in universe(K) {
            v.push(split_probe(&format!("get({k})"), Some(format!("key:{k}")), &|| s.get(&k), actors));
        }
        v
    }
    const RESET: bool = true;
    fn reset_remove(s: &mut Self::St, c: &Clock) {
        s.reset_remove(&to_vclock(c))
    }
}

pub type MapOrswot = SMap<Orswot<u8, u8>>;
pub type MapMVReg = SMap<MVReg<u16, u8>>;
pub type MapMapOrswot = SMap<Map<u8, Orswot<u8, u8>, u8>>;
pub type MapMapMVReg = SMap<Map<u8, MVReg<u16, u8>, u8>>;
pub type MapOrswotBig = SMapK<Orswot<u8, u8>, 12>;
pub type MapMVRegBig = SMapK<MVReg<u16, u8>, 12>;
