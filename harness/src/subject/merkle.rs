//! MerkleReg<Vec<u8>>: nodes with distinct hashes (unique 4-byte values).
use crate::plan::idx;
use crate::sim::*;
use crdts::merkle_reg::{Hash, MerkleReg, Node};
use crdts::{CmRDT, CvRDT};
use serde_json::json;
use std::collections::{BTreeMap, BTreeSet};

pub struct SMerkle;
pub type St = MerkleReg<Vec<u8>>;

pub fn hx(h: &Hash) -> String {
    h[..4].iter().map(|b| format!("{b:02x}")).collect()
}

/// all nodes a replica can name: visible + orphans, found through the public API
fn known_hashes(s: &St) -> Vec<Hash> {
    // dag nodes: reachable from heads through children(); orphans are not enumerable through the API,
    // so authors draw "unreceived" children from the aux table instead (see edit()).
    let mut seen: BTreeSet<Hash> = BTreeSet::new();
    let mut stack: Vec<Hash> = s.read().hashes().into_iter().collect();
    while let Some(h) = stack.pop() {
        if seen.insert(h) {
            for c in s.children(h).hashes() {
                stack.push(c);
            }
        }
    }
    seen.into_iter().collect()
}


impl Subject for SMerkle {
    type St = St;
    type Op = Node<Vec<u8>>;
    const NAME: &'static str = "MerkleReg<Vec<u8>>";
    const MERGE: bool = true;
    const NEEDS: Disc = Disc::Any;
    fn init() -> St {
        MerkleReg::new()
    }
    fn apply(s: &mut St, op: Self::Op) {
        s.apply(op)
    }
    fn merge(s: &mut St, o: St) {
        s.merge(o)
    }
    fn edit(s: &St, _actor: Option<u8>, e: EditArgs, aux: &mut Aux) -> Option<(Self::Op, Sem, String)> {
        let tag = aux.fresh();
        let value = tag.to_be_bytes().to_vec();
        let heads: Vec<Hash> = s.read().hashes().into_iter().collect();
        let known = known_hashes(s);
        let all: Vec<Hash> = aux.hashes.clone();
        let mut children: BTreeSet<Hash> = BTreeSet::new();
        let how;
        match idx(e.kind, 20) {
            0..=8 => {
                children.extend(heads.iter().copied());
                how = "on top of all heads read";
            }
            9..=11 => {
                // subset of heads (leaves a fork)
                for (i, h) in heads.iter().enumerate() {
                    if (e.b >> (i % 16)) & 1 == 1 {
                        children.insert(*h);
                    }
                }
                how = "on a subset of the heads";
            }
            12..=14 => {
                // non-head known nodes
                for (i, h) in known.iter().enumerate() {
                    if (e.b >> (i % 16)) & 1 == 1 {
                        children.insert(*h);
                    }
                }
                how = "on some known nodes";
            }
            15..=17 => {
                // any node written anywhere, possibly not received here (orphan at origin)
                if !all.is_empty() {
                    children.insert(all[idx(e.a, all.len())]);
                    if e.b & 1 == 1 {
                        children.insert(all[idx(e.c, all.len())]);
                    }
                }
                children.extend(heads.iter().copied().take((e.b >> 1) as usize & 1));
                how = "on nodes possibly not received here";
            }
            18 => {
                // a child that is never delivered
                let mut bogus = [0xEEu8; 32];
                bogus[0] = (tag & 0xff) as u8;
                children.insert(bogus);
                how = "on a child that never arrives";
            }
            _ => {
                how = "as a new root";
            }
        }
        let node = s.write(value, children.clone());
        let hash = node.hash();
        aux.hashes.push(hash);
        let sem = Sem::Merkle { hash, children: children.iter().copied().collect() };
        let call = format!("write(v{tag}, {how}: [{}]) -> node {}", children.iter().map(hx).collect::<Vec<_>>().join(","), hx(&hash));
        Some((node, sem, call))
    }
    fn observe(s: &St) -> Obs {
        let mut o = Obs::new();
        let heads: Vec<String> = s.read().hashes().iter().map(hx).collect();
        o.insert("heads".into(), json!(heads));
        o.insert("num_nodes".into(), json!(s.num_nodes()));
        o.insert("num_orphans".into(), json!(s.num_orphans()));
        let mut api: Vec<String> = Vec::new();
        let c = s.read();
        if c.is_empty() != heads.is_empty() {
            api.push("read().is_empty() inconsistent".into());
        }
        if c.values().count() != heads.len() || c.nodes().count() != heads.len() || c.hashes_and_nodes().count() != heads.len() {
            api.push("read() iterators disagree".into());
        }
        for (h, n) in c.hashes_and_nodes() {
            if n.hash() != h {
                api.push("read(): hash key does not match node".into());
            }
        }
        if s.all_nodes().count() != s.num_nodes() {
            api.push("all_nodes().count() != num_nodes()".into());
        }
        o.insert("api".into(), json!(api));
        o
    }
    fn predict(metas: &[OpMeta], know: Bits) -> Option<Obs> {
        let m = MerkleModel::build(metas, know);
        let mut o = Obs::new();
        o.insert("heads".into(), json!(m.heads().iter().map(hx).collect::<Vec<_>>()));
        o.insert("num_nodes".into(), json!(m.visible.len()));
        o.insert("num_orphans".into(), json!(m.received.len() - m.visible.len()));
        o.insert("api".into(), json!([]));
        Some(o)
    }
    fn validate_op(s: &St, op: &Self::Op) -> Result<(), String> {
        s.validate_op(op).map_err(|e| match e {
            crdts::merkle_reg::ValidationError::MissingChild(h) => format!("MissingChild({})", hx(&h)),
        })
    }
}

pub struct MerkleModel {
    pub received: BTreeMap<Hash, Vec<Hash>>,
    pub visible: BTreeSet<Hash>,
}

impl MerkleModel {
    pub fn build(metas: &[OpMeta], know: Bits) -> MerkleModel {
        let mut received: BTreeMap<Hash, Vec<Hash>> = BTreeMap::new();
        for m in metas.iter().filter(|m| has(know, m.id)) {
            if let Sem::Merkle { hash, children } = &m.sem {
                received.insert(*hash, children.clone());
            }
        }
        // least fixpoint: visible iff all children visible
        let mut visible: BTreeSet<Hash> = BTreeSet::new();
        loop {
            let mut grew = false;
            for (h, ch) in &received {
                if !visible.contains(h) && ch.iter().all(|c| visible.contains(c)) {
                    visible.insert(*h);
                    grew = true;
                }
            }
            if !grew {
                break;
            }
        }
        MerkleModel { received, visible }
    }
    pub fn heads(&self) -> Vec<Hash> {
        self.visible.iter().copied().filter(|h| !self.visible.iter().any(|p| self.received[p].contains(h))).collect()
    }
}
