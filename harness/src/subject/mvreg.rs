//! Top-level `MVReg<u16,u8>`.
use crate::model::mvreg::RegModel;
use crate::plan::idx;
use crate::sim::*;
use crdts::mvreg::{MVReg, Op};
use crdts::{CmRDT, CvRDT, ResetRemove};
use serde_json::json;

pub struct SMVReg;
pub type St = MVReg<u16, u8>;

pub fn pick_val(b: u16, aux: &mut Aux) -> u16 {
    // deliberately repeated values (equal values from concurrent writers), sometimes unique
    let k = idx(b, 10);
    if k < 7 {
        (k % 3) as u16
    } else {
        100 + aux.fresh() as u16
    }
}

pub fn sem_of_put(op: &Op<u16, u8>, actor: u8) -> Sem {
    match op {
        Op::Put { clock, val } => {
            let ctx = vclock_to(clock);
            let n = ctx.get(&actor).copied().unwrap_or(0);
            Sem::Put { dot: (actor, n), ctx, val: *val }
        }
    }
}

impl Subject for SMVReg {
    type St = St;
    type Op = Op<u16, u8>;
    const NAME: &'static str = "MVReg<u16,u8>";
    const MERGE: bool = true;
    const NEEDS: Disc = Disc::Any;
    fn init() -> St {
        MVReg::new()
    }
    fn apply(s: &mut St, op: Self::Op) {
        s.apply(op)
    }
    fn merge(s: &mut St, o: St) {
        s.merge(o)
    }
    fn edit(s: &St, actor: Option<u8>, e: EditArgs, aux: &mut Aux) -> Option<(Self::Op, Sem, String)> {
        let a = actor?;
        let val = pick_val(e.b, aux);
        let (ctx, src) = if idx(e.c, 2) == 0 { (s.read().derive_add_ctx(a), "read()") } else { (s.read_ctx().derive_add_ctx(a), "read_ctx()") };
        let op = s.write(val, ctx);
        let sem = sem_of_put(&op, a);
        let call = format!("write({val}) ctx from {src} -> {op:?}");
        Some((op, sem, call))
    }
    fn observe(s: &St) -> Obs {
        let mut o = Obs::new();
        let mut api: Vec<String> = Vec::new();
        let r = s.read();
        if r.add_clock != r.rm_clock {
            api.push("read(): rm_clock != add_clock".into());
        }
        let rc = s.read_ctx();
        if rc.add_clock != r.add_clock || rc.rm_clock != r.rm_clock {
            api.push("read_ctx() disagrees with read()".into());
        }
        let mut vals = r.val.clone();
        vals.sort();
        o.insert("clock".into(), clock_json(&vclock_to(&r.add_clock)));
        o.insert("vals".into(), json!(vals));
        o.insert("api".into(), json!(api));
        o
    }
    fn predict(metas: &[OpMeta], know: Bits) -> Option<Obs> {
        Some(RegModel::build(metas).predict(know))
    }
    fn ctx_probes(s: &St, actors: &[u8]) -> Vec<CtxProbe> {
        let mut v = Vec::new();
        let r = s.read();
        let d = actors
            .iter()
            .map(|a| {
                let ac = s.read().derive_add_ctx(*a);
                (*a, (ac.dot.actor, ac.dot.counter), vclock_to(&ac.clock))
            })
            .collect();
        v.push(CtxProbe { entry: "read".into(), elem: None, add_clock: vclock_to(&r.add_clock), rm_clock: vclock_to(&r.rm_clock), derived: d, derived_rm: vclock_to(&s.read().derive_rm_ctx().clock), note: None });
        let r = s.read_ctx();
        let d = actors
            .iter()
            .map(|a| {
                let ac = s.read_ctx().derive_add_ctx(*a);
                (*a, (ac.dot.actor, ac.dot.counter), vclock_to(&ac.clock))
            })
            .collect();
        v.push(CtxProbe { entry: "read_ctx".into(), elem: None, add_clock: vclock_to(&r.add_clock), rm_clock: vclock_to(&r.rm_clock), derived: d, derived_rm: vclock_to(&s.read_ctx().derive_rm_ctx().clock), note: None });
        v.push(split_probe("read", None, &|| s.read(), actors));
        v.push(split_probe("read_ctx", None, &|| s.read_ctx(), actors));
        v
    }
    const RESET: bool = true;
    fn reset_remove(s: &mut St, c: &Clock) {
        s.reset_remove(&to_vclock(c))
    }
}
