//! List<u32,u8> (causal delivery) and GList<u32> (grow-only, order-free, mergeable).
use crate::plan::idx;
use crate::sim::*;
use crdts::glist::GList;
use crdts::list::{List, Op as LOp};
use crdts::{CmRDT, CvRDT};
use serde_json::json;

pub struct SList;
pub type LSt = List<u32, u8>;

pub fn list_seq(s: &LSt) -> Vec<u32> {
    s.read::<Vec<&u32>>().into_iter().copied().collect()
}

impl Subject for SList {
    type St = LSt;
    type Op = LOp<u32, u8>;
    const NAME: &'static str = "List<u32,u8>";
    const MERGE: bool = false;
    const NEEDS: Disc = Disc::Causal;
    fn init() -> LSt {
        List::new()
    }
    fn apply(s: &mut LSt, op: Self::Op) {
        s.apply(op)
    }
    fn edit(s: &LSt, actor: Option<u8>, e: EditArgs, aux: &mut Aux) -> Option<(Self::Op, Sem, String)> {
        let a = actor?;
        let len = s.len();
        match idx(e.kind, 10) {
            0..=5 => {
                // insert at any index, including beyond the length (clamped by the library); biased to a few
                // "hot" gaps so that several actors keep inserting concurrently into the same gap (nested siblings)
                let i = match idx(e.b, 10) {
                    // "duel": right after the most recently inserted element this replica knows (tags grow with
                    // time), so concurrent editors keep nesting their inserts inside the newest gap (deep paths)
                    0..=2 => {
                        let seq = list_seq(s);
                        match seq.iter().enumerate().max_by_key(|(_, t)| **t) {
                            Some((p, _)) => p + (e.c as usize & 1),
                            None => 0,
                        }
                    }
                    3 => 1.min(len),
                    4 => 0,
                    5 => (len / 2).max(1).min(len),
                    6 => len,
                    _ => idx(e.a, len + 3),
                };
                let tag = aux.fresh();
                let op = s.insert_index(i, tag, a);
                let d = op.dot();
                Some((op.clone(), Sem::ListIns { tag, dot: (d.actor, d.counter) }, format!("insert_index({i}, {tag}) [len {len}] -> id {}", op.id())))
            }
            6 | 7 => {
                let tag = aux.fresh();
                let op = s.append(tag, a);
                let d = op.dot();
                Some((op.clone(), Sem::ListIns { tag, dot: (d.actor, d.counter) }, format!("append({tag}) -> id {}", op.id())))
            }
            _ => {
                if len == 0 {
                    return None;
                }
                let i = idx(e.a, len);
                let tag = *s.position(i)?;
                let op = s.delete_index(i, a)?;
                let d = op.dot();
                Some((op.clone(), Sem::ListDel { tag, dot: (d.actor, d.counter) }, format!("delete_index({i}) [elem {tag}]")))
            }
        }
    }
    fn observe(s: &LSt) -> Obs {
        let mut o = Obs::new();
        let seq = list_seq(s);
        let mut api: Vec<String> = Vec::new();
        if s.len() != seq.len() {
            api.push("len() != read().len()".into());
        }
        if s.is_empty() != seq.is_empty() {
            api.push("is_empty() inconsistent".into());
        }
        let it: Vec<u32> = s.iter().copied().collect();
        if it != seq {
            api.push("iter() != read()".into());
        }
        let ents: Vec<u32> = s.iter_entries().map(|(_, v)| *v).collect();
        if ents != seq {
            api.push("iter_entries() != read()".into());
        }
        for (i, t) in seq.iter().enumerate() {
            if s.position(i) != Some(t) {
                api.push(format!("position({i}) != read()[{i}]"));
            }
        }
        for (i, (id, v)) in s.iter_entries().enumerate() {
            if s.position_entry(id) != Some(i) {
                api.push(format!("position_entry(id of #{i}) wrong"));
            }
            if s.get(id) != Some(v) {
                api.push(format!("get(id of #{i}) wrong"));
            }
        }
        if s.position(seq.len()).is_some() {
            api.push("position(len) is Some".into());
        }
        // the identifiers held by one replica are strictly increasing in BOTH comparison directions
        // (an asymmetric or non-transitive comparison shows here before replicas visibly diverge)
        let ids: Vec<_> = s.iter_entries().map(|(id, _)| id.clone()).collect();
        for i in 0..ids.len() {
            for j in i + 1..ids.len() {
                if !(ids[i] < ids[j]) || !(ids[j] > ids[i]) || ids[i] == ids[j] {
                    api.push(format!("identifiers of elements #{i} and #{j} are not strictly ordered in both directions: {} vs {}", ids[i], ids[j]));
                }
            }
        }
        if s.first() != seq.first() || s.last() != seq.last() {
            api.push("first()/last() inconsistent".into());
        }
        {
            let fe = s.first_entry().map(|(id, v)| (id.clone(), *v));
            let le = s.last_entry().map(|(id, v)| (id.clone(), *v));
            let want_f = s.iter_entries().next().map(|(id, v)| (id.clone(), *v));
            let want_l = s.iter_entries().last().map(|(id, v)| (id.clone(), *v));
            if fe != want_f || le != want_l {
                api.push("first_entry()/last_entry() differ from the first / last of iter_entries()".into());
            }
            let consumed: Vec<u32> = s.clone().read_into::<Vec<u32>>();
            if consumed != seq {
                api.push("read_into() != read()".into());
            }
        }
        let mut set = seq.clone();
        set.sort();
        let dup = set.windows(2).any(|w| w[0] == w[1]);
        if dup {
            api.push("an element appears twice".into());
        }
        o.insert("seq".into(), json!(seq));
        o.insert("set".into(), json!(set));
        o.insert("api".into(), json!(api));
        o
    }
    /// partial model: membership only (order is checked by the order-consistency oracle)
    fn predict(metas: &[OpMeta], know: Bits) -> Option<Obs> {
        let mut set: Vec<u32> = Vec::new();
        for m in metas.iter().filter(|m| has(know, m.id)) {
            if let Sem::ListIns { tag, .. } = m.sem {
                set.push(tag);
            }
        }
        for m in metas.iter().filter(|m| has(know, m.id)) {
            if let Sem::ListDel { tag, .. } = m.sem {
                set.retain(|t| *t != tag);
            }
        }
        set.sort();
        let mut o = Obs::new();
        o.insert("set".into(), json!(set));
        o.insert("api".into(), json!([]));
        Some(o)
    }
    fn validate_op(s: &LSt, op: &Self::Op) -> Result<(), String> {
        s.validate_op(op).map_err(|e| render_dot_range(&e))
    }
}

// ---------------------------------------------------------------- GList
pub struct SGList;
pub type GSt = GList<u32>;

pub fn glist_seq(s: &GSt) -> Vec<u32> {
    s.read::<Vec<&u32>>().into_iter().copied().collect()
}

impl Subject for SGList {
    type St = GSt;
    type Op = crdts::glist::Op<u32>;
    const NAME: &'static str = "GList<u32>";
    const MERGE: bool = true;
    const NEEDS: Disc = Disc::Any;
    fn init() -> GSt {
        GList::new()
    }
    fn apply(s: &mut GSt, op: Self::Op) {
        s.apply(op)
    }
    fn merge(s: &mut GSt, o: GSt) {
        s.merge(o)
    }
    fn edit(s: &GSt, _actor: Option<u8>, e: EditArgs, aux: &mut Aux) -> Option<(Self::Op, Sem, String)> {
        let len = s.len();
        let tag = aux.fresh();
        let (op, call) = match idx(e.kind, 4) {
            0 | 1 => {
                let i = idx(e.a, len + 1);
                (s.insert(i, tag), format!("insert({i}, {tag})"))
            }
            2 => {
                if len == 0 {
                    (s.insert_after(None, tag), format!("insert_after(None, {tag})"))
                } else {
                    let i = idx(e.a, len);
                    (s.insert_after(s.get(i), tag), format!("insert_after(id of #{i}, {tag})"))
                }
            }
            _ => {
                if len == 0 {
                    (s.insert_before(None, tag), format!("insert_before(None, {tag})"))
                } else {
                    let i = idx(e.a, len);
                    (s.insert_before(s.get(i), tag), format!("insert_before(id of #{i}, {tag})"))
                }
            }
        };
        Some((op, Sem::GIns { tag }, call))
    }
    fn observe(s: &GSt) -> Obs {
        let mut o = Obs::new();
        let seq = glist_seq(s);
        let mut api: Vec<String> = Vec::new();
        if s.len() != seq.len() || s.is_empty() != seq.is_empty() {
            api.push("len()/is_empty() inconsistent".into());
        }
        let it: Vec<u32> = s.iter().map(|id| *id.value()).collect();
        if it != seq {
            api.push("iter() != read()".into());
        }
        for (i, t) in seq.iter().enumerate() {
            if s.get(i).map(|id| id.value()) != Some(t) {
                api.push(format!("get({i}) != read()[{i}]"));
            }
        }
        if s.first().map(|i| *i.value()) != seq.first().copied() || s.last().map(|i| *i.value()) != seq.last().copied() {
            api.push("first()/last() inconsistent".into());
        }
        {
            let consumed: Vec<u32> = s.clone().read_into::<Vec<u32>>();
            if consumed != seq {
                api.push("read_into() != read()".into());
            }
            let iv: Vec<u32> = s.iter().map(|id| id.clone().into_value()).collect();
            if iv != seq {
                api.push("Identifier::into_value() != value()".into());
            }
        }
        let mut set = seq.clone();
        set.sort();
        o.insert("seq".into(), json!(seq));
        o.insert("set".into(), json!(set));
        o.insert("api".into(), json!(api));
        o
    }
    fn predict(metas: &[OpMeta], know: Bits) -> Option<Obs> {
        let mut set: Vec<u32> = metas.iter().filter(|m| has(know, m.id)).filter_map(|m| if let Sem::GIns { tag } = m.sem { Some(tag) } else { None }).collect();
        set.sort();
        let mut o = Obs::new();
        o.insert("set".into(), json!(set));
        o.insert("api".into(), json!([]));
        Some(o)
    }
}

/// deepest identifier path held by a List state (read from the serde form)
pub fn max_depth(s: &LSt) -> usize {
    s.iter_entries().map(|(id, _)| crate::tree::to_tree(id).as_array().map(|a| a.len()).unwrap_or(0)).max().unwrap_or(0)
}
