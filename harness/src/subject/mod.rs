pub mod mvreg;
pub mod orswot;
