pub mod lists;
pub mod map;
pub mod merkle;
pub mod mvreg;
pub mod orswot;
pub mod simple;
