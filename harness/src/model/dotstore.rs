//! Dot-store specification for Orswot and Map (any depth).  Uses sets of op ids and integer
//! comparisons only; never a vector-clock operation of the library.
//!
//! Every update is a leaf `(dot, path, payload)`; every remove is `(path, targets, ctx)`.
//! A leaf survives iff no known remove at its own or any enclosing level targets it and covers its dot.
use crate::sim::*;
use serde_json::{json, Value};

#[derive(Clone, Debug, PartialEq)]
pub enum Payload {
    /// an update that adds nothing (a nested remove): keeps its key alive
    Bare,
    Member(u8),
    Val { v: u16, ctx: Clock },
}

#[derive(Clone, Debug)]
pub struct Leaf {
    pub op: usize,
    pub dot: DotT,
    pub path: Vec<u8>,
    pub payload: Payload,
}

#[derive(Clone, Debug)]
pub struct Rem {
    pub op: usize,
    pub path: Vec<u8>,
    /// true: removes members of the set at `path`; false: removes keys of the map at `path`
    pub member_level: bool,
    pub targets: Vec<u8>,
    pub ctx: Clock,
    /// dot of the update that carried this (nested) remove; None for a top-level remove
    pub carrier: Option<DotT>,
}

#[derive(Clone, Debug, Default)]
pub struct Store {
    pub leaves: Vec<Leaf>,
    pub rems: Vec<Rem>,
}

#[derive(Clone, Debug, PartialEq)]
pub enum Shape {
    Set,
    Reg,
    MapOf(Box<Shape>),
}

fn flatten(sem: &Sem, path: &mut Vec<u8>, op: usize, outer: Option<DotT>, st: &mut Store) {
    match sem {
        Sem::SetAdd { dot, members } => {
            for m in members {
                st.leaves.push(Leaf { op, dot: *dot, path: path.clone(), payload: Payload::Member(*m) });
            }
            if members.is_empty() {
                st.leaves.push(Leaf { op, dot: *dot, path: path.clone(), payload: Payload::Bare });
            }
        }
        Sem::SetRm { ctx, members } => {
            st.rems.push(Rem { op, path: path.clone(), member_level: true, targets: members.clone(), ctx: ctx.clone(), carrier: outer });
            if let Some(d) = outer {
                st.leaves.push(Leaf { op, dot: d, path: path.clone(), payload: Payload::Bare });
            }
        }
        Sem::Put { dot, ctx, val } => {
            st.leaves.push(Leaf { op, dot: *dot, path: path.clone(), payload: Payload::Val { v: *val, ctx: ctx.clone() } });
        }
        Sem::MapUp { dot, key, inner } => {
            path.push(*key);
            flatten(inner, path, op, Some(*dot), st);
            path.pop();
        }
        Sem::MapRm { ctx, keys } => {
            st.rems.push(Rem { op, path: path.clone(), member_level: false, targets: keys.clone(), ctx: ctx.clone(), carrier: outer });
            if let Some(d) = outer {
                st.leaves.push(Leaf { op, dot: d, path: path.clone(), payload: Payload::Bare });
            }
        }
        _ => {}
    }
}

impl Store {
    pub fn build(metas: &[OpMeta], know: Bits) -> Store {
        let mut st = Store::default();
        for m in metas {
            if has(know, m.id) {
                let mut p = Vec::new();
                flatten(&m.sem, &mut p, m.id, None, &mut st);
            }
        }
        st
    }

    /// per-actor max over every dot consumed by a known op
    pub fn clock(&self) -> Clock {
        let mut c = Clock::new();
        for l in &self.leaves {
            join_dot(&mut c, l.dot);
        }
        c
    }

    /// does remove `r` target leaf `l` (ignoring the context)?
    pub fn targets(r: &Rem, l: &Leaf) -> bool {
        if r.member_level {
            l.path == r.path && matches!(l.payload, Payload::Member(m) if r.targets.contains(&m))
        } else {
            l.path.len() > r.path.len() && l.path[..r.path.len()] == r.path[..] && r.targets.contains(&l.path[r.path.len()])
        }
    }

    /// leaf not covered by any remove (key-level at enclosing levels, member-level at its own)
    pub fn survives(&self, l: &Leaf) -> bool {
        !self.rems.iter().any(|r| Self::targets(r, l) && covers(&r.ctx, l.dot))
    }

    /// leaf not covered by any key-level remove at levels 0..=depth (depth = length of the map's path)
    pub fn survives_keys(&self, l: &Leaf, depth: usize) -> bool {
        !self.rems.iter().any(|r| !r.member_level && r.path.len() <= depth && Self::targets(r, l) && covers(&r.ctx, l.dot))
    }

    /// is the Val leaf superseded by another known write of the same register?
    pub fn superseded(&self, l: &Leaf) -> bool {
        self.leaves.iter().any(|o| o.op != l.op && o.path == l.path && matches!(&o.payload, Payload::Val { ctx, .. } if covers(ctx, l.dot)))
    }

    /// witness of key `k` of the map at `path`
    pub fn key_witness(&self, path: &[u8], k: u8) -> Clock {
        let mut c = Clock::new();
        for l in &self.leaves {
            if l.path.len() > path.len() && l.path[..path.len()] == *path && l.path[path.len()] == k && self.survives_keys(l, path.len()) {
                join_dot(&mut c, l.dot);
            }
        }
        c
    }

    pub fn set_witness(&self, path: &[u8], m: u8) -> Clock {
        let mut c = Clock::new();
        for l in &self.leaves {
            if l.path == path && l.payload == Payload::Member(m) && self.survives(l) {
                join_dot(&mut c, l.dot);
            }
        }
        c
    }

    pub fn set_members(&self, path: &[u8]) -> Vec<u8> {
        let mut v: Vec<u8> = Vec::new();
        for l in &self.leaves {
            if l.path == path {
                if let Payload::Member(m) = l.payload {
                    if self.survives(l) && !v.contains(&m) {
                        v.push(m);
                    }
                }
            }
        }
        v.sort();
        v
    }

    pub fn reg_values(&self, path: &[u8]) -> Vec<u16> {
        let mut v: Vec<u16> = Vec::new();
        for l in &self.leaves {
            if l.path == path {
                if let Payload::Val { v: val, .. } = &l.payload {
                    if self.survives(l) && !self.superseded(l) {
                        v.push(*val);
                    }
                }
            }
        }
        v.sort();
        v
    }

    pub fn map_keys(&self, path: &[u8]) -> Vec<u8> {
        let mut ks: Vec<u8> = Vec::new();
        for l in &self.leaves {
            if l.path.len() > path.len() && l.path[..path.len()] == *path {
                let k = l.path[path.len()];
                if !ks.contains(&k) && self.survives_keys(l, path.len()) {
                    ks.push(k);
                }
            }
        }
        ks.sort();
        ks
    }

    /// nested value content (no contexts)
    pub fn value(&self, path: &[u8], shape: &Shape) -> Value {
        match shape {
            Shape::Set => json!(self.set_members(path)),
            Shape::Reg => json!(self.reg_values(path)),
            Shape::MapOf(inner) => {
                let mut m = serde_json::Map::new();
                for k in self.map_keys(path) {
                    let mut p = path.to_vec();
                    p.push(k);
                    m.insert(k.to_string(), self.value(&p, inner));
                }
                Value::Object(m)
            }
        }
    }
}

/// predicted observation of a (top-level) set at `path`
pub fn predict_set(ds: &Store, path: &[u8], universe: &[u8], clock: &Clock) -> Obs {
    let mut o = Obs::new();
    let members = ds.set_members(path);
    let mut all: Vec<u8> = universe.to_vec();
    for m in &members {
        if !all.contains(m) {
            all.push(*m);
        }
    }
    for m in all {
        let w = ds.set_witness(path, m);
        o.insert(format!("member:{m}"), json!({"present": !w.is_empty(), "witness": clock_json(&w)}));
    }
    o.insert("clock".into(), clock_json(clock));
    o.insert("members".into(), json!(members));
    o.insert("api".into(), json!([]));
    o
}

/// predicted observation of a top-level map whose values have `shape`
pub fn predict_map(ds: &Store, shape: &Shape, key_universe: &[u8]) -> Obs {
    let mut o = Obs::new();
    let keys = ds.map_keys(&[]);
    let mut all: Vec<u8> = key_universe.to_vec();
    for k in &keys {
        if !all.contains(k) {
            all.push(*k);
        }
    }
    for k in all {
        let w = ds.key_witness(&[], k);
        let val = if w.is_empty() { Value::Null } else { ds.value(&[k], shape) };
        o.insert(format!("key:{k}"), json!({"present": !w.is_empty(), "witness": clock_json(&w), "val": val}));
    }
    o.insert("clock".into(), clock_json(&ds.clock()));
    o.insert("keys".into(), json!(keys));
    o.insert("api".into(), json!([]));
    o
}
