pub mod dotstore;
pub mod mvreg;
