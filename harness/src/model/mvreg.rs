//! MVReg reference model: knowledge sets only.  past(w) = transitive causal past of the write's
//! author at creation time; visible(K) = writes in K not in the past of another write in K.
use crate::sim::*;
use serde_json::json;

pub struct RegModel {
    /// per op id: Some((past bitset, ctx, val, dot)) for writes
    pub writes: Vec<Option<(Bits, Clock, u16, DotT)>>,
}

impl RegModel {
    pub fn build(metas: &[OpMeta]) -> RegModel {
        let mut writes: Vec<Option<(Bits, Clock, u16, DotT)>> = Vec::with_capacity(metas.len());
        for m in metas {
            match &m.sem {
                Sem::Put { dot, ctx, val } => {
                    let mut past: Bits = 0;
                    for v in bits_iter(m.deps) {
                        if let Some(Some((p, _, _, _))) = writes.get(v) {
                            past |= bit(v) | *p;
                        }
                    }
                    writes.push(Some((past, ctx.clone(), *val, *dot)));
                }
                _ => writes.push(None),
            }
        }
        RegModel { writes }
    }

    pub fn visible(&self, know: Bits) -> Vec<usize> {
        let mut dominated: Bits = 0;
        for w in bits_iter(know) {
            if let Some(Some((p, _, _, _))) = self.writes.get(w) {
                dominated |= *p;
            }
        }
        bits_iter(know).filter(|w| matches!(self.writes.get(*w), Some(Some(_))) && !has(dominated, *w)).collect()
    }

    pub fn predict(&self, know: Bits) -> Obs {
        let vis = self.visible(know);
        let mut vals: Vec<u16> = Vec::new();
        let mut clock = Clock::new();
        for w in vis {
            let (_, ctx, v, _) = self.writes[w].as_ref().unwrap();
            vals.push(*v);
            join(&mut clock, ctx);
        }
        vals.sort();
        let mut o = Obs::new();
        o.insert("clock".into(), clock_json(&clock));
        o.insert("vals".into(), json!(vals));
        o.insert("api".into(), json!([]));
        o
    }
}
