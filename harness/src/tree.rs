//! serde -> `serde_json::Value` introspection that (unlike `serde_json::to_value`) accepts maps with
//! structured keys: a non-string key is rendered as the compact JSON text of the key.  This lets the
//! harness look at internal state (pending-remove tables, hidden value clocks, orphans) through the
//! crate's own `Serialize` impls, with no hook in /repo.  Map entries are sorted by key text, so the
//! result does not depend on `HashMap` iteration order.
use serde::ser::{self, Serialize};
use serde_json::{Map, Number, Value};
use std::fmt;

#[derive(Debug)]
pub struct TErr(pub String);
impl fmt::Display for TErr {
    fn fmt(&self, f: &mut fmt::Formatter<'_>) -> fmt::Result {
        write!(f, "{}", self.0)
    }
}
impl std::error::Error for TErr {}
impl ser::Error for TErr {
    fn custom<T: fmt::Display>(msg: T) -> Self {
        TErr(msg.to_string())
    }
}

pub fn to_tree<T: Serialize + ?Sized>(v: &T) -> Value {
    let mut t = v.serialize(S).expect("tree serialisation cannot fail");
    canon_sets(&mut t, false);
    t
}

/// The pending-remove tables (`deferred`) map a clock to a *set* of members that serialises in hash
/// iteration order: sort those arrays so that trees of equal states are equal.
fn canon_sets(v: &mut Value, in_deferred: bool) {
    match v {
        Value::Object(m) => {
            for (k, x) in m.iter_mut() {
                if in_deferred {
                    if let Value::Array(a) = x {
                        a.sort_by_key(|e| e.to_string());
                    }
                }
                canon_sets(x, k == "deferred");
            }
        }
        Value::Array(a) => {
            for x in a.iter_mut() {
                canon_sets(x, false);
            }
        }
        _ => {}
    }
}

fn key_text(k: Value) -> String {
    match k {
        Value::String(s) => s,
        other => other.to_string(),
    }
}

pub struct S;
pub struct SeqS(Vec<Value>);
pub struct VarSeqS(&'static str, Vec<Value>);
pub struct MapS(Vec<(String, Value)>, Option<String>);
pub struct VarMapS(&'static str, Vec<(String, Value)>);

fn finish_map(mut v: Vec<(String, Value)>) -> Value {
    v.sort_by(|a, b| a.0.cmp(&b.0));
    let mut m = Map::new();
    for (k, val) in v {
        m.insert(k, val);
    }
    Value::Object(m)
}

impl ser::Serializer for S {
    type Ok = Value;
    type Error = TErr;
    type SerializeSeq = SeqS;
    type SerializeTuple = SeqS;
    type SerializeTupleStruct = SeqS;
    type SerializeTupleVariant = VarSeqS;
    type SerializeMap = MapS;
    type SerializeStruct = MapS;
    type SerializeStructVariant = VarMapS;

    fn serialize_bool(self, v: bool) -> Result<Value, TErr> {
        Ok(Value::Bool(v))
    }
    fn serialize_i8(self, v: i8) -> Result<Value, TErr> {
        Ok(Value::Number(Number::from(v)))
    }
    fn serialize_i16(self, v: i16) -> Result<Value, TErr> {
        Ok(Value::Number(Number::from(v)))
    }
    fn serialize_i32(self, v: i32) -> Result<Value, TErr> {
        Ok(Value::Number(Number::from(v)))
    }
    fn serialize_i64(self, v: i64) -> Result<Value, TErr> {
        Ok(Value::Number(Number::from(v)))
    }
    fn serialize_u8(self, v: u8) -> Result<Value, TErr> {
        Ok(Value::Number(Number::from(v)))
    }
    fn serialize_u16(self, v: u16) -> Result<Value, TErr> {
        Ok(Value::Number(Number::from(v)))
    }
    fn serialize_u32(self, v: u32) -> Result<Value, TErr> {
        Ok(Value::Number(Number::from(v)))
    }
    fn serialize_u64(self, v: u64) -> Result<Value, TErr> {
        Ok(Value::Number(Number::from(v)))
    }
    fn serialize_f32(self, v: f32) -> Result<Value, TErr> {
        Ok(Number::from_f64(v as f64).map(Value::Number).unwrap_or(Value::Null))
    }
    fn serialize_f64(self, v: f64) -> Result<Value, TErr> {
        Ok(Number::from_f64(v).map(Value::Number).unwrap_or(Value::Null))
    }
    fn serialize_char(self, v: char) -> Result<Value, TErr> {
        Ok(Value::String(v.to_string()))
    }
    fn serialize_str(self, v: &str) -> Result<Value, TErr> {
        Ok(Value::String(v.to_string()))
    }
    fn serialize_bytes(self, v: &[u8]) -> Result<Value, TErr> {
        Ok(Value::Array(v.iter().map(|b| Value::Number(Number::from(*b))).collect()))
    }
    fn serialize_none(self) -> Result<Value, TErr> {
        Ok(Value::Null)
    }
    fn serialize_some<T: Serialize + ?Sized>(self, v: &T) -> Result<Value, TErr> {
        v.serialize(S)
    }
    fn serialize_unit(self) -> Result<Value, TErr> {
        Ok(Value::Null)
    }
    fn serialize_unit_struct(self, _: &'static str) -> Result<Value, TErr> {
        Ok(Value::Null)
    }
    fn serialize_unit_variant(self, _: &'static str, _: u32, variant: &'static str) -> Result<Value, TErr> {
        Ok(Value::String(variant.to_string()))
    }
    fn serialize_newtype_struct<T: Serialize + ?Sized>(self, _: &'static str, v: &T) -> Result<Value, TErr> {
        v.serialize(S)
    }
    fn serialize_newtype_variant<T: Serialize + ?Sized>(
        self,
        _: &'static str,
        _: u32,
        variant: &'static str,
        v: &T,
    ) -> Result<Value, TErr> {
        let mut m = Map::new();
        m.insert(variant.to_string(), v.serialize(S)?);
        Ok(Value::Object(m))
    }
    fn serialize_seq(self, _: Option<usize>) -> Result<SeqS, TErr> {
        Ok(SeqS(Vec::new()))
    }
    fn serialize_tuple(self, _: usize) -> Result<SeqS, TErr> {
        Ok(SeqS(Vec::new()))
    }
    fn serialize_tuple_struct(self, _: &'static str, _: usize) -> Result<SeqS, TErr> {
        Ok(SeqS(Vec::new()))
    }
    fn serialize_tuple_variant(self, _: &'static str, _: u32, variant: &'static str, _: usize) -> Result<VarSeqS, TErr> {
        Ok(VarSeqS(variant, Vec::new()))
    }
    fn serialize_map(self, _: Option<usize>) -> Result<MapS, TErr> {
        Ok(MapS(Vec::new(), None))
    }
    fn serialize_struct(self, _: &'static str, _: usize) -> Result<MapS, TErr> {
        Ok(MapS(Vec::new(), None))
    }
    fn serialize_struct_variant(self, _: &'static str, _: u32, variant: &'static str, _: usize) -> Result<VarMapS, TErr> {
        Ok(VarMapS(variant, Vec::new()))
    }
}

impl ser::SerializeSeq for SeqS {
    type Ok = Value;
    type Error = TErr;
    fn serialize_element<T: Serialize + ?Sized>(&mut self, v: &T) -> Result<(), TErr> {
        self.0.push(v.serialize(S)?);
        Ok(())
    }
    fn end(self) -> Result<Value, TErr> {
        Ok(Value::Array(self.0))
    }
}
impl ser::SerializeTuple for SeqS {
    type Ok = Value;
    type Error = TErr;
    fn serialize_element<T: Serialize + ?Sized>(&mut self, v: &T) -> Result<(), TErr> {
        self.0.push(v.serialize(S)?);
        Ok(())
    }
    fn end(self) -> Result<Value, TErr> {
        Ok(Value::Array(self.0))
    }
}
impl ser::SerializeTupleStruct for SeqS {
    type Ok = Value;
    type Error = TErr;
    fn serialize_field<T: Serialize + ?Sized>(&mut self, v: &T) -> Result<(), TErr> {
        self.0.push(v.serialize(S)?);
        Ok(())
    }
    fn end(self) -> Result<Value, TErr> {
        Ok(Value::Array(self.0))
    }
}
impl ser::SerializeTupleVariant for VarSeqS {
    type Ok = Value;
    type Error = TErr;
    fn serialize_field<T: Serialize + ?Sized>(&mut self, v: &T) -> Result<(), TErr> {
        self.1.push(v.serialize(S)?);
        Ok(())
    }
    fn end(self) -> Result<Value, TErr> {
        let mut m = Map::new();
        m.insert(self.0.to_string(), Value::Array(self.1));
        Ok(Value::Object(m))
    }
}
impl ser::SerializeMap for MapS {
    type Ok = Value;
    type Error = TErr;
    fn serialize_key<T: Serialize + ?Sized>(&mut self, k: &T) -> Result<(), TErr> {
        self.1 = Some(key_text(k.serialize(S)?));
        Ok(())
    }
    fn serialize_value<T: Serialize + ?Sized>(&mut self, v: &T) -> Result<(), TErr> {
        let k = self.1.take().expect("value without key");
        self.0.push((k, v.serialize(S)?));
        Ok(())
    }
    fn end(self) -> Result<Value, TErr> {
        Ok(finish_map(self.0))
    }
}
impl ser::SerializeStruct for MapS {
    type Ok = Value;
    type Error = TErr;
    fn serialize_field<T: Serialize + ?Sized>(&mut self, k: &'static str, v: &T) -> Result<(), TErr> {
        self.0.push((k.to_string(), v.serialize(S)?));
        Ok(())
    }
    fn end(self) -> Result<Value, TErr> {
        Ok(finish_map(self.0))
    }
}
impl ser::SerializeStructVariant for VarMapS {
    type Ok = Value;
    type Error = TErr;
    fn serialize_field<T: Serialize + ?Sized>(&mut self, k: &'static str, v: &T) -> Result<(), TErr> {
        self.1.push((k.to_string(), v.serialize(S)?));
        Ok(())
    }
    fn end(self) -> Result<Value, TErr> {
        let mut m = Map::new();
        m.insert(self.0.to_string(), finish_map(self.1));
        Ok(Value::Object(m))
    }
}

/// Walk a tree and call `f(path, field_name, value)` for every object field.
pub fn walk<'a>(v: &'a Value, path: &mut Vec<String>, f: &mut dyn FnMut(&[String], &str, &'a Value)) {
    match v {
        Value::Object(m) => {
            for (k, val) in m {
                f(path, k, val);
                path.push(k.clone());
                walk(val, path, f);
                path.pop();
            }
        }
        Value::Array(a) => {
            for (i, val) in a.iter().enumerate() {
                path.push(i.to_string());
                walk(val, path, f);
                path.pop();
            }
        }
        _ => {}
    }
}
