//! proptest TestRunner driver: sharding over worker threads, counters, shrinking, replay files,
//! known-finding replays, evidence.
use proptest::strategy::{BoxedStrategy, Strategy};
use proptest::test_runner::{Config, RngSeed, TestCaseError, TestError, TestRunner};
use serde::de::DeserializeOwned;
use serde::Serialize;
use serde_json::{json, Value};
use std::cell::RefCell;
use std::collections::hash_map::DefaultHasher;
use std::collections::{BTreeMap, HashSet};
use std::hash::{Hash, Hasher};
use std::panic::{catch_unwind, AssertUnwindSafe};
use std::sync::Arc;
use std::time::Instant;

pub const SHARDS: u64 = 16;

/// heartbeat for the in-process watchdog: incremented whenever a case (or an enumeration step) completes
pub static HEARTBEAT: std::sync::atomic::AtomicU64 = std::sync::atomic::AtomicU64::new(0);
#[inline]
pub fn beat() {
    HEARTBEAT.fetch_add(1, std::sync::atomic::Ordering::Relaxed);
}

/// A case that does not finish (e.g. the library loops forever on some input) must not be reported as a
/// violation and must not block the run for the wrapper's whole time limit: if no case completes for
/// `secs` seconds the process exits with status 2 (inconclusive).
pub fn start_watchdog(secs: u64) {
    std::thread::spawn(move || {
        let mut last = HEARTBEAT.load(std::sync::atomic::Ordering::Relaxed);
        let mut idle = 0u64;
        loop {
            std::thread::sleep(std::time::Duration::from_secs(5));
            let now = HEARTBEAT.load(std::sync::atomic::Ordering::Relaxed);
            if now == last {
                idle += 5;
                if idle >= secs {
                    eprintln!("WATCHDOG: no case completed for {secs}s (a case hangs); inconclusive");
                    std::process::exit(2);
                }
            } else {
                idle = 0;
                last = now;
            }
        }
    });
}

/// `--strict`: run the search with all known-finding exemptions disabled (used to (re)derive minimal replays)
pub static STRICT: std::sync::atomic::AtomicBool = std::sync::atomic::AtomicBool::new(false);
/// `--strict-class X`: disable only the exemption of known-finding class X (to derive a minimal replay of X)
pub static STRICT_CLASS: std::sync::RwLock<Option<String>> = std::sync::RwLock::new(None);
pub fn class_enabled(name: &str) -> bool {
    match STRICT_CLASS.read().unwrap().as_deref() {
        Some(x) => x != name,
        None => true,
    }
}
pub fn strict_mode() -> bool {
    STRICT.load(std::sync::atomic::Ordering::Relaxed)
}

#[derive(Clone, Debug)]
pub struct Fail {
    pub msg: String,
    pub detail: Value,
}
impl Fail {
    pub fn new(msg: impl Into<String>) -> Self {
        Fail { msg: msg.into(), detail: Value::Null }
    }
    pub fn with(msg: impl Into<String>, detail: Value) -> Self {
        Fail { msg: msg.into(), detail }
    }
}

#[derive(Default, Debug, Clone)]
pub struct Stats {
    pub cases: u64,
    pub nontrivial: HashSet<u64>,
    /// non-trivial cases that are distinct by construction (exhaustive enumeration): counted, not hashed
    pub nontrivial_enumerated: u64,
    pub classes: BTreeMap<String, u64>,
    pub observations: u64,
    pub exempted: BTreeMap<String, u64>,
    pub skipped_steps: u64,
    pub executed_steps: u64,
    pub trace: bool,
    pub samples: Vec<Value>,
    pub cur_nontrivial: bool,
    /// strict mode: known-finding exemptions are disabled (used when replaying known findings)
    pub strict: bool,
    pub exhaustive_scopes: Vec<String>,
}
impl Stats {
    pub fn class(&mut self, name: &str) {
        *self.classes.entry(name.to_string()).or_insert(0) += 1;
    }
    pub fn class_n(&mut self, name: &str, n: u64) {
        *self.classes.entry(name.to_string()).or_insert(0) += n;
    }
    pub fn exempt(&mut self, name: &str) {
        *self.exempted.entry(name.to_string()).or_insert(0) += 1;
    }
    pub fn absorb(&mut self, o: Stats) {
        self.cases += o.cases;
        self.nontrivial.extend(o.nontrivial);
        self.nontrivial_enumerated += o.nontrivial_enumerated;
        for (k, v) in o.classes {
            *self.classes.entry(k).or_insert(0) += v;
        }
        for (k, v) in o.exempted {
            *self.exempted.entry(k).or_insert(0) += v;
        }
        self.observations += o.observations;
        self.skipped_steps += o.skipped_steps;
        self.executed_steps += o.executed_steps;
        for s in o.samples {
            if self.samples.len() < 4 {
                self.samples.push(s);
            }
        }
        for s in o.exhaustive_scopes {
            if !self.exhaustive_scopes.contains(&s) {
                self.exhaustive_scopes.push(s);
            }
        }
    }
}

pub fn hash_of<T: Hash>(t: &T) -> u64 {
    let mut h = DefaultHasher::new();
    t.hash(&mut h);
    h.finish()
}

pub fn mix(seed: u64, label: &str, shard: u64) -> u64 {
    // FNV-1a over the label, then splitmix
    let mut h: u64 = 0xcbf29ce484222325;
    for b in label.bytes() {
        h ^= b as u64;
        h = h.wrapping_mul(0x100000001b3);
    }
    let mut z = seed ^ h.rotate_left(17) ^ shard.wrapping_mul(0x9E3779B97F4A7C15);
    z = (z ^ (z >> 30)).wrapping_mul(0xBF58476D1CE4E5B9);
    z = (z ^ (z >> 27)).wrapping_mul(0x94D049BB133111EB);
    z ^ (z >> 31)
}

pub struct JobFailure {
    pub label: String,
    pub input: Value,
    pub msg: String,
    pub detail: Value,
    pub rendering: Value,
}

pub struct JobResult {
    pub label: String,
    pub stats: Stats,
    pub failure: Option<JobFailure>,
    /// class floors violated (generator degenerate)
    pub degenerate: Vec<String>,
}

pub trait JobT: Send + Sync {
    fn label(&self) -> String;
    fn run(&self, seed: u64, tier_scale: f64) -> JobResult;
    /// re-execute a saved input; Ok(rendering) if it passes, Err(failure) otherwise
    fn replay(&self, input: &Value, strict: bool) -> Result<Value, JobFailure>;
    /// decode fuzzer bytes into this job's input type (None: job has no byte decoder / bytes unusable)
    fn decode_bytes(&self, _data: &[u8]) -> Option<Value> {
        None
    }
    /// encode an input (as stored in replay files) into fuzzer bytes
    fn encode_input(&self, _input: &Value) -> Option<Vec<u8>> {
        None
    }
    /// proptest-generated inputs, encoded as fuzzer bytes (corpus seeds)
    fn sample_encoded(&self, _seed: u64, _n: usize) -> Vec<Vec<u8>> {
        Vec::new()
    }
    /// run one fuzzer input; None if the job cannot decode bytes
    fn fuzz(&self, _data: &[u8]) -> Option<Result<(), Fail>> {
        None
    }
}

pub type CaseFn<T> = Arc<dyn Fn(&T, &mut Stats) -> Result<(), Fail> + Send + Sync>;

/// A proptest-driven job over inputs of type T.
pub struct PJob<T> {
    pub label: String,
    pub cases_quick: u64,
    pub cases_thorough: u64,
    pub strategy: Arc<dyn Fn() -> BoxedStrategy<T> + Send + Sync>,
    pub f: CaseFn<T>,
    /// (class name, minimal fraction of cases)
    pub floors: Vec<(String, f64)>,
    /// fuzzer bytes -> input (coverage-guided fuzzing drives the same case function)
    pub decode: Option<Arc<dyn Fn(&[u8]) -> Option<T> + Send + Sync>>,
    /// input -> fuzzer bytes (inverse of `decode`)
    pub encode: Option<Arc<dyn Fn(&T) -> Vec<u8> + Send + Sync>>,
}

fn run_case<T>(f: &CaseFn<T>, t: &T, stats: &mut Stats) -> Result<(), Fail> {
    beat();
    match catch_unwind(AssertUnwindSafe(|| f(t, stats))) {
        Ok(r) => r,
        Err(p) => {
            let msg = if let Some(s) = p.downcast_ref::<String>() {
                s.clone()
            } else if let Some(s) = p.downcast_ref::<&str>() {
                s.to_string()
            } else {
                "panic".to_string()
            };
            Err(Fail::new(format!("panic inside the case: {msg}")))
        }
    }
}

impl<T: Clone + std::fmt::Debug + Hash + Serialize + DeserializeOwned + Send + Sync + 'static> PJob<T> {
    fn run_shard(&self, seed: u64, shard: u64, cases: u64) -> (Stats, Option<(T, String)>) {
        let cfg = Config {
            cases: cases as u32,
            failure_persistence: None,
            rng_seed: RngSeed::Fixed(mix(seed, &self.label, shard)),
            max_shrink_iters: 20_000,
            // bound shrinking: a violation must be reported well inside the wrapper's time limit
            max_shrink_time: 30_000,
            verbose: 0,
            max_global_rejects: 1,
            ..Config::default()
        };
        let mut runner = TestRunner::new(cfg);
        let stats = RefCell::new(Stats { strict: strict_mode(), ..Stats::default() });
        let failed = RefCell::new(false);
        let strategy = (self.strategy)();
        let res = runner.run(&strategy, |t: T| {
            if *failed.borrow() {
                // shrinking: do not count
                let mut scratch = Stats { strict: strict_mode(), ..Stats::default() };
                return match run_case(&self.f, &t, &mut scratch) {
                    Ok(()) => Ok(()),
                    Err(e) => Err(TestCaseError::fail(e.msg)),
                };
            }
            let mut st = stats.borrow_mut();
            st.cur_nontrivial = false;
            st.cases += 1;
            match run_case(&self.f, &t, &mut st) {
                Ok(()) => {
                    if st.cur_nontrivial {
                        let h = hash_of(&t);
                        let fresh = st.nontrivial.insert(h);
                        if fresh && st.samples.len() < 1 {
                            let mut scratch = Stats { strict: strict_mode(), ..Stats::default() };
                            scratch.trace = true;
                            let _ = run_case(&self.f, &t, &mut scratch);
                            if let Some(s) = scratch.samples.pop() {
                                st.samples.push(s);
                            }
                        }
                    }
                    Ok(())
                }
                Err(e) => {
                    *failed.borrow_mut() = true;
                    Err(TestCaseError::fail(e.msg))
                }
            }
        });
        let stats = stats.into_inner();
        match res {
            Ok(()) => (stats, None),
            Err(TestError::Fail(reason, value)) => (stats, Some((value, reason.message().to_string()))),
            Err(TestError::Abort(reason)) => panic!("proptest aborted: {}", reason.message()),
        }
    }

    fn failure_of(&self, t: &T, strict: bool) -> Option<JobFailure> {
        let mut scratch = Stats::default();
        scratch.trace = true;
        scratch.strict = strict;
        match run_case(&self.f, t, &mut scratch) {
            Ok(()) => None,
            Err(e) => Some(JobFailure {
                label: self.label.clone(),
                input: serde_json::to_value(t).unwrap_or(Value::Null),
                msg: e.msg,
                detail: e.detail,
                rendering: scratch.samples.pop().unwrap_or(Value::Null),
            }),
        }
    }
}

impl<T: Clone + std::fmt::Debug + Hash + Serialize + DeserializeOwned + Send + Sync + 'static> JobT for PJob<T> {
    fn label(&self) -> String {
        self.label.clone()
    }
    fn run(&self, seed: u64, tier_scale: f64) -> JobResult {
        let total = if tier_scale > 1.0 { self.cases_thorough } else { self.cases_quick };
        let per = (total + SHARDS - 1) / SHARDS;
        let mut results: Vec<(Stats, Option<(T, String)>)> = Vec::new();
        std::thread::scope(|sc| {
            let mut hs = Vec::new();
            for shard in 0..SHARDS {
                hs.push(sc.spawn(move || self.run_shard(seed, shard, per)));
            }
            for h in hs {
                results.push(h.join().expect("shard thread panicked"));
            }
        });
        let mut stats = Stats::default();
        let mut failure: Option<JobFailure> = None;
        for (s, f) in results {
            stats.absorb(s);
            if let Some((t, _reason)) = f {
                if let Some(jf) = self.failure_of(&t, strict_mode()) {
                    // keep the smallest rendering
                    let size = jf.input.to_string().len();
                    if failure.as_ref().map(|o| o.input.to_string().len() > size).unwrap_or(true) {
                        failure = Some(jf);
                    }
                }
            }
        }
        let mut degenerate = Vec::new();
        if failure.is_none() {
            for (class, floor) in &self.floors {
                let n = stats.classes.get(class).copied().unwrap_or(0);
                if (n as f64) < floor * (stats.cases as f64) {
                    degenerate.push(format!("job {}: class '{}' occurred in {} of {} cases (< {:.1}%)", self.label, class, n, stats.cases, floor * 100.0));
                }
            }
        }
        JobResult { label: self.label.clone(), stats, failure, degenerate }
    }
    fn decode_bytes(&self, data: &[u8]) -> Option<Value> {
        let d = self.decode.as_ref()?;
        let t = d(data)?;
        serde_json::to_value(&t).ok()
    }
    fn encode_input(&self, input: &Value) -> Option<Vec<u8>> {
        let e = self.encode.as_ref()?;
        let t: T = serde_json::from_value(input.clone()).ok()?;
        Some(e(&t))
    }
    fn sample_encoded(&self, seed: u64, n: usize) -> Vec<Vec<u8>> {
        use proptest::strategy::ValueTree;
        let Some(e) = self.encode.as_ref() else { return Vec::new() };
        let cfg = Config { cases: 1, failure_persistence: None, rng_seed: RngSeed::Fixed(mix(seed, &self.label, 999)), ..Config::default() };
        let mut runner = TestRunner::new(cfg);
        let strategy = (self.strategy)();
        (0..n).filter_map(|_| strategy.new_tree(&mut runner).ok().map(|t| e(&t.current()))).collect()
    }
    fn fuzz(&self, data: &[u8]) -> Option<Result<(), Fail>> {
        let d = self.decode.as_ref()?;
        let t = d(data)?;
        let mut st = Stats::default();
        Some(run_case(&self.f, &t, &mut st))
    }
    fn replay(&self, input: &Value, strict: bool) -> Result<Value, JobFailure> {
        let t: T = serde_json::from_value(input.clone()).map_err(|e| JobFailure {
            label: self.label.clone(),
            input: input.clone(),
            msg: format!("cannot decode replay input: {e}"),
            detail: Value::Null,
            rendering: Value::Null,
        })?;
        match self.failure_of(&t, strict) {
            Some(f) => Err(f),
            None => {
                let mut scratch = Stats::default();
                scratch.trace = true;
                scratch.strict = strict;
                let _ = run_case(&self.f, &t, &mut scratch);
                Ok(scratch.samples.pop().unwrap_or(Value::Null))
            }
        }
    }
}

/// Bounded-exhaustive job: enumerates a finite scope completely (sharded).
pub struct EJob {
    pub label: String,
    pub scope: String,
    /// f(shard, nshards, thorough, stats)
    pub f: Arc<dyn Fn(u64, u64, bool, &mut Stats) -> Result<(), Fail> + Send + Sync>,
}

impl JobT for EJob {
    fn label(&self) -> String {
        self.label.clone()
    }
    fn run(&self, _seed: u64, tier_scale: f64) -> JobResult {
        let thorough = tier_scale > 1.0;
        let mut results = Vec::new();
        std::thread::scope(|sc| {
            let mut hs = Vec::new();
            for shard in 0..SHARDS {
                hs.push(sc.spawn(move || {
                    let mut st = Stats::default();
                    let r = catch_unwind(AssertUnwindSafe(|| (self.f)(shard, SHARDS, thorough, &mut st)));
                    let r = match r {
                        Ok(r) => r,
                        Err(_) => Err(Fail::new("panic inside exhaustive enumeration")),
                    };
                    (st, r)
                }));
            }
            for h in hs {
                results.push(h.join().expect("shard thread panicked"));
            }
        });
        let mut stats = Stats::default();
        let mut failure = None;
        for (s, r) in results {
            stats.absorb(s);
            if let Err(e) = r {
                if failure.is_none() {
                    failure = Some(JobFailure { label: self.label.clone(), input: e.detail.clone(), msg: e.msg, detail: e.detail, rendering: Value::Null });
                }
            }
        }
        if failure.is_none() {
            stats.exhaustive_scopes.push(self.scope.clone());
        }
        JobResult { label: self.label.clone(), stats, failure, degenerate: Vec::new() }
    }
    fn replay(&self, input: &Value, _strict: bool) -> Result<Value, JobFailure> {
        // exhaustive jobs are deterministic: re-run everything (quick scope)
        let r = self.run(0, 1.0);
        match r.failure {
            Some(f) => Err(f),
            None => Ok(input.clone()),
        }
    }
}

pub struct Property {
    pub id: &'static str,
    pub rule: String,
    pub assumptions: Vec<String>,
    pub jobs: Vec<Box<dyn JobT>>,
}

pub fn job<T: Clone + std::fmt::Debug + Hash + Serialize + DeserializeOwned + Send + Sync + 'static>(
    label: impl Into<String>,
    quick: u64,
    thorough: u64,
    strategy: impl Fn() -> BoxedStrategy<T> + Send + Sync + 'static,
    f: impl Fn(&T, &mut Stats) -> Result<(), Fail> + Send + Sync + 'static,
) -> PJob<T> {
    PJob { label: label.into(), cases_quick: quick, cases_thorough: thorough, strategy: Arc::new(strategy), f: Arc::new(f), floors: Vec::new(), decode: None, encode: None }
}

impl<T> PJob<T> {
    pub fn decoder(mut self, d: impl Fn(&[u8]) -> Option<T> + Send + Sync + 'static) -> Self {
        self.decode = Some(Arc::new(d));
        self
    }
    pub fn encoder(mut self, e: impl Fn(&T) -> Vec<u8> + Send + Sync + 'static) -> Self {
        self.encode = Some(Arc::new(e));
        self
    }
    pub fn floor(mut self, class: &str, frac: f64) -> Self {
        self.floors.push((class.to_string(), frac));
        self
    }
    pub fn boxed(self) -> Box<dyn JobT>
    where
        T: Clone + std::fmt::Debug + Hash + Serialize + DeserializeOwned + Send + Sync + 'static,
    {
        Box::new(self)
    }
}

pub fn strat<T: std::fmt::Debug + 'static>(s: impl Strategy<Value = T> + 'static) -> BoxedStrategy<T> {
    s.boxed()
}

// ------------------------------------------------------------------------------------------------
// top-level driver

#[derive(serde::Deserialize, Clone, Debug)]
pub struct KnownFinding {
    pub property: String,
    pub class: String,
    pub what: String,
    pub replay: String,
    #[serde(default)]
    pub status: String,
}

pub struct RunOutcome {
    pub exit: i32,
}

pub fn run_property(p: &Property, tier: &str, seed: u64, verif_dir: &str, only_job: Option<&str>) -> RunOutcome {
    let t0 = Instant::now();
    let scale = if tier == "thorough" { 50.0 } else { 1.0 };
    let mut total = Stats::default();
    let mut per_job = Vec::new();
    let mut violations = Vec::new();
    let mut degenerate = Vec::new();

    // 1. replay known findings of this property
    let kf_path = format!("{verif_dir}/known_findings.json");
    let mut known_lines = Vec::new();
    let mut regressions: Vec<JobFailure> = Vec::new();
    if let Ok(text) = std::fs::read_to_string(&kf_path) {
        let list: Vec<KnownFinding> = serde_json::from_str(&text).expect("known_findings.json is malformed");
        for k in list.iter().filter(|k| k.property == p.id) {
            let path = format!("{verif_dir}/{}", k.replay);
            if k.replay.is_empty() {
                continue;
            }
            let text = match std::fs::read_to_string(&path) {
                Ok(t) => t,
                Err(e) => {
                    eprintln!("cannot read known-finding replay {path}: {e}");
                    return RunOutcome { exit: 2 };
                }
            };
            let v: Value = serde_json::from_str(&text).expect("replay file malformed");
            let label = v["job"].as_str().unwrap_or("");
            if let Some(j) = p.jobs.iter().find(|j| j.label() == label) {
                // a "fixed" entry suppresses nothing: its replay is a plain regression input (repeated, because
                // the original failure depended on hash iteration order) and a failure is reported as a violation
                let rounds = if k.status == "fixed" { 24 } else { 1 };
                for _ in 0..rounds {
                    // open findings are replayed with every exemption off; fixed ones with the normal exemptions
                    // (their history may also contain other, still open, classes)
                    match j.replay(&v["input"], k.status != "fixed") {
                        Err(f) if k.status == "fixed" => {
                            regressions.push(f);
                            break;
                        }
                        Err(f) => known_lines.push(format!("KNOWN-FINDING: property={} class={} {} [{}]", p.id, k.class, k.what, first_line(&f.msg))),
                        Ok(_) => { /* no longer violates: nothing printed, nothing suppressed */ }
                    }
                }
            } else {
                eprintln!("known finding {} refers to unknown job '{}'", k.class, label);
                return RunOutcome { exit: 2 };
            }
        }
    }

    // 2. the search
    for j in &p.jobs {
        if let Some(o) = only_job {
            if !j.label().contains(o) {
                continue;
            }
        }
        let tj = Instant::now();
        let r = j.run(seed, scale);
        per_job.push(json!({
            "job": r.label,
            "cases": r.stats.cases,
            "distinct_nontrivial": r.stats.nontrivial.len() as u64 + r.stats.nontrivial_enumerated,
            "observations": r.stats.observations,
            "classes": r.stats.classes,
            "exempted": r.stats.exempted,
            "skipped_steps": r.stats.skipped_steps,
            "executed_steps": r.stats.executed_steps,
            "wall_s": tj.elapsed().as_secs_f64(),
        }));
        degenerate.extend(r.degenerate.clone());
        if let Some(f) = r.failure {
            violations.push(f);
        }
        total.absorb(r.stats);
    }

    // 3. report
    violations.extend(regressions);
    for l in &known_lines {
        println!("{l}");
    }
    let mut exit = 0;
    std::fs::create_dir_all(format!("{verif_dir}/replays")).ok();
    for f in &violations {
        let body = json!({
            "property": p.id, "job": f.label, "strict": strict_mode(), "input": f.input, "message": f.msg, "detail": f.detail, "history": f.rendering,
        });
        let h = hash_of(&body.to_string());
        let path = format!("{verif_dir}/replays/{}-{:016x}.json", p.id, h);
        std::fs::write(&path, serde_json::to_string_pretty(&body).unwrap()).expect("write replay");
        println!("VIOLATION property={} replay={}", p.id, path);
        println!("  job: {}", f.label);
        for l in f.msg.lines().take(12) {
            println!("  {l}");
        }
        exit = 1;
    }
    if exit == 0 && !degenerate.is_empty() {
        for d in &degenerate {
            eprintln!("GENERATOR-DEGENERATE {d}");
        }
        exit = 2;
    }

    let evidence = json!({
        "property_id": p.id,
        "tier": tier,
        "seed": seed,
        "level": "exploration",
        "coverage": {
            "evaluations": total.cases,
            "distinct_nontrivial": total.nontrivial.len() as u64 + total.nontrivial_enumerated,
            "rule": p.rule,
            "samples": total.samples,
            "observations": total.observations,
            "classes": total.classes,
            "exempted": total.exempted,
            "skipped_steps": total.skipped_steps,
            "executed_steps": total.executed_steps,
            "exhaustive": false,
            "exhaustive_scopes": total.exhaustive_scopes,
            "jobs": per_job,
            "known_findings_reproduced": known_lines,
            "fuzz": std::env::var("VCHECK_FUZZ_STATS").ok().and_then(|p| std::fs::read_to_string(p).ok()).and_then(|t| serde_json::from_str::<Value>(&t).ok()).unwrap_or(Value::Null),
        },
        "assumptions": p.assumptions,
        "wall_s": t0.elapsed().as_secs_f64(),
        "violations": violations.len(),
    });
    std::fs::create_dir_all(format!("{verif_dir}/evidence")).ok();
    let suffix = if only_job.is_some() { ".partial" } else { "" };
    std::fs::write(format!("{verif_dir}/evidence/{}{}.json", p.id, suffix), serde_json::to_string_pretty(&evidence).unwrap()).expect("write evidence");
    eprintln!(
        "[{}] tier={} seed={} cases={} nontrivial={} observations={} violations={} wall={:.1}s",
        p.id,
        tier,
        seed,
        total.cases,
        total.nontrivial.len() as u64 + total.nontrivial_enumerated,
        total.observations,
        violations.len(),
        t0.elapsed().as_secs_f64()
    );
    RunOutcome { exit }
}

pub fn first_line(s: &str) -> String {
    s.lines().next().unwrap_or("").chars().take(160).collect()
}

pub fn replay_file(p: &Property, path: &str) -> i32 {
    let text = std::fs::read_to_string(path).expect("read replay file");
    let v: Value = serde_json::from_str(&text).expect("replay json");
    let label = v["job"].as_str().unwrap_or("");
    let Some(j) = p.jobs.iter().find(|j| j.label() == label) else {
        eprintln!("unknown job '{label}'");
        return 2;
    };
    let strict = v["strict"].as_bool().unwrap_or(false);
    match j.replay(&v["input"], strict) {
        Ok(r) => {
            println!("replay passes: property {} holds on this input", p.id);
            println!("{}", serde_json::to_string_pretty(&r).unwrap());
            0
        }
        Err(f) => {
            println!("VIOLATION property={} replay={}", p.id, path);
            println!("{}", f.msg);
            println!("{}", serde_json::to_string_pretty(&f.rendering).unwrap());
            1
        }
    }
}

// ------------------------------------------------------------------------------------------------
// coverage-guided fuzzing entry: byte 0 selects the job (among those with a byte decoder), the rest
// is decoded into that job's input; the SAME case function (same oracle, same exemptions) decides.

pub fn fuzz_jobs(p: &Property) -> Vec<&Box<dyn JobT>> {
    p.jobs.iter().filter(|j| j.decode_bytes(&[0u8; 64]).is_some()).collect()
}

pub fn fuzz_one(p: &Property, data: &[u8]) -> Result<(), String> {
    let js = fuzz_jobs(p);
    fuzz_one_of(p, &js, data)
}

/// same, with the list of byte-decodable jobs computed once by the caller
pub fn fuzz_one_of(p: &Property, js: &[&Box<dyn JobT>], data: &[u8]) -> Result<(), String> {
    if data.len() < 4 {
        return Ok(());
    }
    if js.is_empty() {
        return Ok(());
    }
    let j = js[data[0] as usize % js.len()];
    match j.fuzz(&data[1..]) {
        Some(Err(f)) => Err(format!("property {} job {}: {}", p.id, j.label(), f.msg)),
        _ => Ok(()),
    }
}

/// turn a libFuzzer artifact into a normal replay / VIOLATION report
pub fn fuzz_artifact(p: &Property, path: &str, verif_dir: &str) -> i32 {
    let data = std::fs::read(path).expect("read artifact");
    if data.len() < 4 {
        println!("artifact too short to decode");
        return 0;
    }
    let js = fuzz_jobs(p);
    if js.is_empty() {
        return 0;
    }
    let j = js[data[0] as usize % js.len()];
    let Some(mut input) = j.decode_bytes(&data[1..]) else { return 0 };
    // minimise with the history shrinker (greedy step removal), not with `fuzz tmin`
    if j.replay(&input, false).is_err() {
        loop {
            let n = input["steps"].as_array().map(|a| a.len()).unwrap_or(0);
            let mut removed = false;
            for i in (0..n).rev() {
                let mut cand = input.clone();
                cand["steps"].as_array_mut().unwrap().remove(i);
                if j.replay(&cand, false).is_err() {
                    input = cand;
                    removed = true;
                }
            }
            if !removed {
                break;
            }
        }
    }
    match j.replay(&input, false) {
        Ok(_) => {
            println!("fuzz artifact {path} does not reproduce on the stable build (job {})", j.label());
            0
        }
        Err(f) => {
            let body = json!({"property": p.id, "job": f.label, "strict": false, "input": f.input, "message": f.msg, "detail": f.detail, "history": f.rendering, "from_fuzz_artifact": path});
            let h = hash_of(&body.to_string());
            std::fs::create_dir_all(format!("{verif_dir}/replays")).ok();
            let rp = format!("{verif_dir}/replays/{}-{:016x}.json", p.id, h);
            std::fs::write(&rp, serde_json::to_string_pretty(&body).unwrap()).expect("write replay");
            println!("VIOLATION property={} replay={}", p.id, rp);
            for l in f.msg.lines().take(12) {
                println!("  {l}");
            }
            1
        }
    }
}

/// write corpus seeds for the fuzz target of property `p`: the known-finding replays of its jobs and `n` proptest-generated
/// inputs per job, each prefixed with the job-selector byte
pub fn emit_corpus(p: &Property, dir: &str, seed: u64, n: usize, verif_dir: &str) -> usize {
    std::fs::create_dir_all(dir).ok();
    let js = fuzz_jobs(p);
    let mut count = 0usize;
    let mut write = |bytes: Vec<u8>, count: &mut usize| {
        if bytes.len() > 4 {
            std::fs::write(format!("{dir}/seed-{:04}", *count), bytes).ok();
            *count += 1;
        }
    };
    let known: Vec<KnownFinding> = std::fs::read_to_string(format!("{verif_dir}/known_findings.json")).ok().and_then(|t| serde_json::from_str(&t).ok()).unwrap_or_default();
    for (ji, j) in js.iter().enumerate() {
        for k in known.iter().filter(|k| k.property == p.id && !k.replay.is_empty()) {
            if let Ok(text) = std::fs::read_to_string(format!("{verif_dir}/{}", k.replay)) {
                if let Ok(v) = serde_json::from_str::<Value>(&text) {
                    if v["job"].as_str() == Some(&j.label()) {
                        if let Some(mut b) = j.encode_input(&v["input"]) {
                            b.insert(0, ji as u8);
                            write(b, &mut count);
                        }
                    }
                }
            }
        }
        for mut b in j.sample_encoded(seed, n) {
            b.insert(0, ji as u8);
            write(b, &mut count);
        }
    }
    count
}
