use vcheck::engine;
use vcheck::props;

fn usage() -> ! {
    eprintln!("usage: vcheck <Cxx> [--tier quick|thorough] [--seed N] [--replay FILE] [--job SUBSTR] [--verif DIR]");
    std::process::exit(2)
}

fn main() {
    // library panics inside a case are caught and reported by the engine; keep stderr quiet
    std::panic::set_hook(Box::new(|_| {}));
    let args: Vec<String> = std::env::args().skip(1).collect();
    if args.is_empty() {
        usage();
    }
    let id = args[0].clone();
    let mut tier = std::env::var("VERIF_TIER").unwrap_or_else(|_| "quick".into());
    let mut seed: u64 = std::env::var("VERIF_SEED").ok().and_then(|s| s.trim().parse::<i64>().ok()).map(|v| v as u64).unwrap_or(0);
    let mut replay: Option<String> = None;
    let mut artifact: Option<String> = None;
    let mut emit: Option<String> = None;
    let mut job: Option<String> = None;
    let mut verif = "/verif".to_string();
    let mut i = 1;
    while i < args.len() {
        match args[i].as_str() {
            "--tier" => {
                tier = args.get(i + 1).cloned().unwrap_or_else(|| usage());
                i += 2;
            }
            "--seed" => {
                seed = args.get(i + 1).and_then(|s| s.parse::<i64>().ok()).map(|v| v as u64).unwrap_or_else(|| usage());
                i += 2;
            }
            "--replay" => {
                replay = Some(args.get(i + 1).cloned().unwrap_or_else(|| usage()));
                i += 2;
            }
            "--job" => {
                job = Some(args.get(i + 1).cloned().unwrap_or_else(|| usage()));
                i += 2;
            }
            "--fuzz-artifact" => {
                artifact = Some(args.get(i + 1).cloned().unwrap_or_else(|| usage()));
                i += 2;
            }
            "--emit-corpus" => {
                emit = Some(args.get(i + 1).cloned().unwrap_or_else(|| usage()));
                i += 2;
            }
            "--strict" => {
                engine::STRICT.store(true, std::sync::atomic::Ordering::Relaxed);
                i += 1;
            }
            "--strict-class" => {
                *engine::STRICT_CLASS.write().unwrap() = Some(args.get(i + 1).cloned().unwrap_or_else(|| usage()));
                i += 2;
            }
            "--verif" => {
                verif = args.get(i + 1).cloned().unwrap_or_else(|| usage());
                i += 2;
            }
            _ => usage(),
        }
    }
    if tier != "quick" && tier != "thorough" {
        usage();
    }
    if tier == "thorough" {
        vcheck::plan::THOROUGH.store(true, std::sync::atomic::Ordering::Relaxed);
    }
    let Some(p) = props::build(&id) else {
        eprintln!("unknown property {id}");
        std::process::exit(2);
    };
    engine::start_watchdog(180);
    if let Some(dir) = emit {
        let n = engine::emit_corpus(&p, &dir, seed, 6, &verif);
        println!("{n} corpus seeds written to {dir}");
        std::process::exit(0);
    }
    if let Some(path) = artifact {
        std::process::exit(engine::fuzz_artifact(&p, &path, &verif));
    }
    if let Some(path) = replay {
        std::process::exit(engine::replay_file(&p, &path));
    }
    let out = engine::run_property(&p, &tier, seed, &verif, job.as_deref());
    std::process::exit(out.exit);
}
