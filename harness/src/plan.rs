//! The history language: a Plan is plain data, every field a small integer.  The interpreter
//! (sim.rs) is total: any Plan is a valid history; indices are mapped monotonically onto the
//! currently available choices so that proptest's numeric shrinking moves to earlier choices.
use proptest::prelude::*;
use serde::{Deserialize, Serialize};

#[derive(Clone, Debug, PartialEq, Eq, Hash, Serialize, Deserialize)]
pub enum Step {
    /// subject-specific API edit at replica `r` (kind/a/b/c are choice indices)
    Edit { r: u16, kind: u16, a: u16, b: u16, c: u16, d: u16, e: u16, f: u16 },
    /// deliver one not-yet-known op, eligible under the check's delivery discipline
    Deliver { r: u16, pick: u16 },
    /// deliver an op the replica already knows (at-least-once)
    Redeliver { r: u16, pick: u16 },
    /// dst.merge(src.clone())
    Merge { dst: u16, src: u16 },
    /// remember the current state of r
    Snapshot { r: u16 },
    /// merge a remembered (stale) state into dst
    MergeSnapshot { dst: u16, pick: u16 },
    /// replace r by deserialize(serialize(r))
    SaveRestore { r: u16 },
    /// property specific probe
    Probe { a: u16, b: u16, c: u16, d: u16 },
}

#[derive(Clone, Debug, PartialEq, Eq, Hash, Serialize, Deserialize)]
pub struct Plan {
    /// editing replicas (each owns one actor), 1..=5
    pub editors: u8,
    /// observers: no actor, only receive / merge / remove
    pub observers: u8,
    pub steps: Vec<Step>,
    /// picks used by final settle phases / twin orders
    pub settle: Vec<u16>,
    /// selects the actor identities of the editing replicas (0 = actors 1,2,3,..); see ACTOR_LAYOUTS
    #[serde(default)]
    pub actors: u16,
}

/// actor identities per layout: ascending, descending, extremes of u8, sparse, shuffled
pub const ACTOR_LAYOUTS: [[u8; 16]; 6] = [
    [1, 2, 3, 4, 5, 6, 7, 8, 9, 10, 11, 12, 13, 14, 15, 16],
    [16, 15, 14, 13, 12, 11, 10, 9, 8, 7, 6, 5, 4, 3, 2, 1],
    [0, 255, 128, 1, 254, 127, 2, 253, 64, 192, 32, 224, 16, 240, 8, 248],
    [255, 0, 9, 250, 3, 100, 101, 99, 50, 150, 25, 75, 125, 175, 225, 5],
    [10, 20, 30, 40, 50, 60, 70, 80, 90, 100, 110, 120, 130, 140, 150, 160],
    [3, 1, 2, 0, 4, 9, 7, 5, 8, 6, 13, 11, 12, 10, 15, 14],
];

impl Plan {
    pub fn actor_of(&self, replica: usize) -> u8 {
        ACTOR_LAYOUTS[idx(self.actors, ACTOR_LAYOUTS.len())][replica % 16]
    }
}

/// Element values of the big-alphabet subjects (members / keys): the extremes of u8, values that coincide with actor
/// identities of several layouts (0, 1, 2, 3, 16, 100, 128, 255, ...) and values that do not.  The first three are the "hot" ones.
pub const BIG_VALUES: [u8; 16] = [0, 255, 1, 2, 128, 3, 127, 254, 4, 5, 16, 200, 6, 7, 100, 253];
/// the element universe for an alphabet of size n: 0..n for the small (default) alphabets, a prefix of BIG_VALUES otherwise
pub fn universe(n: usize) -> Vec<u8> {
    if n <= 3 {
        (0..n as u8).collect()
    } else {
        BIG_VALUES[..n.min(16)].to_vec()
    }
}

/// monotone index mapping: i in 0..65536 -> 0..n
#[inline]
pub fn idx(i: u16, n: usize) -> usize {
    debug_assert!(n > 0);
    ((i as usize) * n) >> 16
}

#[derive(Clone, Debug)]
pub struct Weights {
    pub edit: u32,
    pub deliver: u32,
    pub redeliver: u32,
    pub merge: u32,
    pub snapshot: u32,
    pub merge_snapshot: u32,
    pub save_restore: u32,
    pub probe: u32,
}

impl Weights {
    pub const fn ops_only() -> Self {
        Weights { edit: 40, deliver: 45, redeliver: 8, merge: 0, snapshot: 4, merge_snapshot: 0, save_restore: 0, probe: 0 }
    }
    pub const fn mixed() -> Self {
        Weights { edit: 38, deliver: 30, redeliver: 6, merge: 14, snapshot: 5, merge_snapshot: 5, save_restore: 0, probe: 0 }
    }
    pub const fn merges_only() -> Self {
        Weights { edit: 45, deliver: 0, redeliver: 0, merge: 35, snapshot: 8, merge_snapshot: 10, save_restore: 0, probe: 0 }
    }
    pub fn with_probe(mut self, p: u32) -> Self {
        self.probe = p;
        self
    }
    pub fn with_save(mut self, p: u32) -> Self {
        self.save_restore = p;
        self
    }
    pub fn with_redeliver(mut self, p: u32) -> Self {
        self.redeliver = p;
        self
    }
    pub fn with_snap(mut self, s: u32, ms: u32) -> Self {
        self.snapshot = s;
        self.merge_snapshot = ms;
        self
    }
}

#[derive(Clone, Debug)]
pub struct PlanCfg {
    pub editors: (u8, u8),
    pub observers: (u8, u8),
    pub steps: (usize, usize),
    pub settle: usize,
    pub w: Weights,
    /// share (in %) of LONG histories (default 4)
    pub long_w: u32,
}

impl PlanCfg {
    pub fn new(w: Weights) -> Self {
        PlanCfg { editors: (2, 4), observers: (0, 1), steps: (4, 24), settle: 8, w, long_w: 4 }
    }
    /// share of long histories, in % (subjects whose containers only grow one element per op need many ops)
    pub fn long_share(mut self, pct: u32) -> Self {
        self.long_w = pct.clamp(1, 90);
        self
    }
    pub fn steps(mut self, lo: usize, hi: usize) -> Self {
        self.steps = (lo, hi);
        self
    }
    pub fn editors(mut self, lo: u8, hi: u8) -> Self {
        self.editors = (lo, hi);
        self
    }
    pub fn observers(mut self, lo: u8, hi: u8) -> Self {
        self.observers = (lo, hi);
        self
    }
}

fn step_strategy(w: &Weights) -> BoxedStrategy<Step> {
    let any = || any::<u16>();
    let mut v: Vec<(u32, BoxedStrategy<Step>)> = Vec::new();
    if w.edit > 0 {
        v.push((w.edit, (any(), any(), any(), any(), any(), any(), any(), any()).prop_map(|(r, kind, a, b, c, d, e, f)| Step::Edit { r, kind, a, b, c, d, e, f }).boxed()));
    }
    if w.deliver > 0 {
        v.push((w.deliver, (any(), any()).prop_map(|(r, pick)| Step::Deliver { r, pick }).boxed()));
    }
    if w.redeliver > 0 {
        v.push((w.redeliver, (any(), any()).prop_map(|(r, pick)| Step::Redeliver { r, pick }).boxed()));
    }
    if w.merge > 0 {
        v.push((w.merge, (any(), any()).prop_map(|(dst, src)| Step::Merge { dst, src }).boxed()));
    }
    if w.snapshot > 0 {
        v.push((w.snapshot, any().prop_map(|r| Step::Snapshot { r }).boxed()));
    }
    if w.merge_snapshot > 0 {
        v.push((w.merge_snapshot, (any(), any()).prop_map(|(dst, pick)| Step::MergeSnapshot { dst, pick }).boxed()));
    }
    if w.save_restore > 0 {
        v.push((w.save_restore, any().prop_map(|r| Step::SaveRestore { r }).boxed()));
    }
    if w.probe > 0 {
        v.push((w.probe, (any(), any(), any(), any()).prop_map(|(a, b, c, d)| Step::Probe { a, b, c, d }).boxed()));
    }
    proptest::strategy::Union::new_weighted(v).boxed()
}

/// thorough tier: longer histories and one more editor (set once by main before any strategy is built)
pub static THOROUGH: std::sync::atomic::AtomicBool = std::sync::atomic::AtomicBool::new(false);

pub fn plan_strategy(cfg: &PlanCfg) -> BoxedStrategy<Plan> {
    let mut cfg = cfg.clone();
    if THOROUGH.load(std::sync::atomic::Ordering::Relaxed) {
        cfg.steps.1 = cfg.steps.1 * 3 / 2;
        cfg.editors.1 = (cfg.editors.1 + 1).min(5);
    }
    // 4 % of the cases are LONG histories (90-130 steps, up to 6 editors) and 3 % are WIDE ones (8-16 editing replicas,
    // 100-130 steps; deliveries and merges are skewed towards a few hub replicas by the interpreter): deep states
    // (long lists, counters in the tens, many pending removes, clocks with a dozen actors, many concurrent values,
    // wide fan-in) that short histories among 2-4 replicas never reach
    let long_lo = (cfg.steps.1 * 3).min(90);
    let long_hi = (cfg.steps.1 * 5).min(130);
    let settle = || proptest::collection::vec(any::<u16>(), cfg.settle..=cfg.settle);
    let normal = (cfg.editors.0..=cfg.editors.1, cfg.observers.0..=cfg.observers.1, proptest::collection::vec(step_strategy(&cfg.w), cfg.steps.0..=cfg.steps.1), settle(), any::<u16>());
    let long = (cfg.editors.0..=(cfg.editors.1 + 2).min(6), cfg.observers.0..=cfg.observers.1, proptest::collection::vec(step_strategy(&cfg.w), long_lo..=long_hi), settle(), any::<u16>());
    let wide = (8u8..=16, cfg.observers.0..=cfg.observers.1, proptest::collection::vec(step_strategy(&cfg.w), 100usize..=130), settle(), any::<u16>());
    prop_oneof![97 - cfg.long_w => normal, cfg.long_w => long, 3 => wide]
        .prop_map(|(editors, observers, steps, settle, actors)| Plan { editors, observers, steps, settle, actors })
        .boxed()
}

// ------------------------------------------------------------------------------------------------
// byte decoder for coverage-guided fuzzing: respects the job's PlanCfg (a step kind with weight 0 is
// never produced, so ops-only / strict jobs stay within their domain)

pub struct Reader<'a> {
    d: &'a [u8],
    p: usize,
}
impl<'a> Reader<'a> {
    pub fn new(d: &'a [u8]) -> Self {
        Reader { d, p: 0 }
    }
    pub fn left(&self) -> usize {
        self.d.len().saturating_sub(self.p)
    }
    pub fn u8(&mut self) -> u8 {
        let v = self.d.get(self.p).copied().unwrap_or(0);
        self.p += 1;
        v
    }
    pub fn u16(&mut self) -> u16 {
        let a = self.u8() as u16;
        let b = self.u8() as u16;
        (a << 8) | b
    }
}

pub fn decode_plan(cfg: &PlanCfg, data: &[u8]) -> Option<Plan> {
    if data.len() < 8 {
        return None;
    }
    let mut r = Reader::new(data);
    let editors = cfg.editors.0 + r.u8() % (cfg.editors.1 - cfg.editors.0 + 1);
    let observers = cfg.observers.0 + r.u8() % (cfg.observers.1 - cfg.observers.0 + 1);
    let settle: Vec<u16> = (0..cfg.settle).map(|_| r.u16()).collect();
    let actors = (r.u8() as u16) << 8;
    let w = &cfg.w;
    let table = [w.edit, w.deliver, w.redeliver, w.merge, w.snapshot, w.merge_snapshot, w.save_restore, w.probe];
    let total: u32 = table.iter().sum();
    let mut steps = Vec::new();
    let max_steps = cfg.steps.1.max(8) + 12;
    while r.left() > 0 && steps.len() < max_steps {
        let mut x = (r.u8() as u32 * total) >> 8;
        let mut kind = 0;
        for (i, t) in table.iter().enumerate() {
            if x < *t {
                kind = i;
                break;
            }
            x -= *t;
        }
        let s = match kind {
            0 => Step::Edit { r: r.u16(), kind: r.u16(), a: r.u16(), b: r.u16(), c: r.u16(), d: r.u16(), e: r.u16(), f: r.u16() },
            1 => Step::Deliver { r: r.u16(), pick: r.u16() },
            2 => Step::Redeliver { r: r.u16(), pick: r.u16() },
            3 => Step::Merge { dst: r.u16(), src: r.u16() },
            4 => Step::Snapshot { r: r.u16() },
            5 => Step::MergeSnapshot { dst: r.u16(), pick: r.u16() },
            6 => Step::SaveRestore { r: r.u16() },
            _ => Step::Probe { a: r.u16(), b: r.u16(), c: r.u16(), d: r.u16() },
        };
        steps.push(s);
    }
    Some(Plan { editors, observers, steps, settle, actors })
}

/// inverse of `decode_plan` (used to seed the fuzzing corpus with meaningful histories: known-finding replays
/// and proptest-generated Plans)
pub fn encode_plan(cfg: &PlanCfg, plan: &Plan) -> Vec<u8> {
    let mut out: Vec<u8> = Vec::new();
    let put16 = |out: &mut Vec<u8>, v: u16| {
        out.push((v >> 8) as u8);
        out.push((v & 0xff) as u8);
    };
    out.push(plan.editors.saturating_sub(cfg.editors.0).min(cfg.editors.1 - cfg.editors.0));
    out.push(plan.observers.saturating_sub(cfg.observers.0).min(cfg.observers.1 - cfg.observers.0));
    for i in 0..cfg.settle {
        put16(&mut out, plan.settle.get(i).copied().unwrap_or(0));
    }
    // preserve the actor-layout index exactly
    out.push((idx(plan.actors, ACTOR_LAYOUTS.len()) * 43 + 21) as u8);
    let w = &cfg.w;
    let table = [w.edit, w.deliver, w.redeliver, w.merge, w.snapshot, w.merge_snapshot, w.save_restore, w.probe];
    let total: u32 = table.iter().sum();
    let kind_byte = |k: usize| -> Option<u8> {
        if table[k] == 0 {
            return None;
        }
        let start: u32 = table[..k].iter().sum();
        // smallest x with (x * total) >> 8 >= start, moved into the middle of the range
        for x in 0u32..256 {
            let v = (x * total) >> 8;
            if v >= start && v < start + table[k] {
                let mid = x + ((table[k] * 256 / total) / 2).min(255 - x);
                let vm = (mid * total) >> 8;
                return Some(if vm >= start && vm < start + table[k] { mid as u8 } else { x as u8 });
            }
        }
        None
    };
    for s in &plan.steps {
        let (k, fields): (usize, Vec<u16>) = match *s {
            Step::Edit { r, kind, a, b, c, d, e, f } => (0, vec![r, kind, a, b, c, d, e, f]),
            Step::Deliver { r, pick } => (1, vec![r, pick]),
            Step::Redeliver { r, pick } => (2, vec![r, pick]),
            Step::Merge { dst, src } => (3, vec![dst, src]),
            Step::Snapshot { r } => (4, vec![r]),
            Step::MergeSnapshot { dst, pick } => (5, vec![dst, pick]),
            Step::SaveRestore { r } => (6, vec![r]),
            Step::Probe { a, b, c, d } => (7, vec![a, b, c, d]),
        };
        let Some(kb) = kind_byte(k) else { continue };
        out.push(kb);
        for v in fields {
            put16(&mut out, v);
        }
    }
    out
}

#[cfg(test)]
mod tests {
    use super::*;
    use proptest::strategy::ValueTree;
    use proptest::test_runner::TestRunner;
    #[test]
    fn encode_decode_round_trip() {
        for w in [Weights::ops_only(), Weights::mixed().with_probe(10).with_save(5)] {
            let cfg = PlanCfg::new(w).steps(4, 28);
            let mut runner = TestRunner::deterministic();
            let s = plan_strategy(&cfg);
            for _ in 0..300 {
                let p = s.new_tree(&mut runner).unwrap().current();
                if p.editors > cfg.editors.1 || p.steps.len() > cfg.steps.1 + 12 {
                    continue; // long-history plans exceed the byte decoder's bounds
                }
                let bytes = encode_plan(&cfg, &p);
                let q = decode_plan(&cfg, &bytes).unwrap();
                assert_eq!(p.editors, q.editors);
                assert_eq!(p.observers, q.observers);
                assert_eq!(p.steps, q.steps);
                assert_eq!(p.settle, q.settle);
                assert_eq!(idx(p.actors, ACTOR_LAYOUTS.len()), idx(q.actors, ACTOR_LAYOUTS.len()));
            }
        }
    }
}
