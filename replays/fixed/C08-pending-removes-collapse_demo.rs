//! Demonstration of the defect repaired by the "fix:" commit in /repo (property C08).
//! Copy to /repo/examples/ and run `cargo run --offline --example <name>`; exits 0 iff the property holds.
//!
//! Two nested removes overtake the adds they observed and are parked inside the nested set; a key
//! remove that observed only part of the entry then subtracts its dots from the parked removes'
//! clocks; the two clocks become equal and (before the fix) one pending remove silently replaced
//! the other, depending on hash iteration order, so a removed member resurrected.
use crdts::{CmRDT, Map, Orswot};

type M = Map<u8, Orswot<u8, u8>, u8>;

fn main() {
    let mut bad = 0;
    for _round in 0..64 {
        // fresh instances => fresh hash seeds
        let (mut r0, mut r1, mut r2, mut r3): (M, M, M, M) = (Map::new(), Map::new(), Map::new(), Map::new());
        // actor 3 (replica r2) adds member 0 under key 0
        let op0 = r2.update(0, r2.read_ctx().derive_add_ctx(3), |s, c| s.add(0, c));
        r2.apply(op0.clone());
        // actor 1 (replica r0) adds members 0 and 1 under key 0
        let op1 = r0.update(0, r0.read_ctx().derive_add_ctx(1), |s, c| s.add_all(vec![0, 1], c));
        r0.apply(op1.clone());
        // replica r1 (actor 2) sees both, removes member 0 and member 1 from the nested set
        r1.apply(op0.clone());
        r1.apply(op1.clone());
        let op3 = r1.update(0, r1.read_ctx().derive_add_ctx(2), |s, _| s.rm(0, s.contains(&0).derive_rm_ctx()));
        r1.apply(op3.clone());
        let op4 = r1.update(0, r1.read_ctx().derive_add_ctx(2), |s, _| s.rm(1, s.contains(&1).derive_rm_ctx()));
        r1.apply(op4.clone());
        // replica r2 removes key 0 having seen only its own add
        let op5 = r2.rm(0, r2.get(&0).derive_rm_ctx());
        r2.apply(op5.clone());
        // replica r3 receives everything in an order that respects each actor's issue order only
        for op in [op3, op4, op0, op5, op1] {
            r3.apply(op);
        }
        let members: Vec<u8> = r3.get(&0).val.map(|s| s.read().val.into_iter().collect()).unwrap_or_default();
        if !members.is_empty() {
            bad += 1;
        }
    }
    if bad > 0 {
        eprintln!("C08 violated in {bad} of 64 rounds: a member whose every add was covered by an applied remove is present");
        std::process::exit(1);
    }
    println!("ok: overtaking removes were never lost");
}
