#!/bin/bash
# Build the verification harness offline from files on disk only.
set -eu
VERIF="$(cd "$(dirname "$0")" && pwd)"
export CARGO_NET_OFFLINE=true
cd "$VERIF/harness"
cargo build --release --quiet
echo "harness built"
